module verif

go 1.23

require (
	github.com/anishathalye/porcupine v1.3.0
	github.com/biogo/hts v0.0.0
	pgregory.net/rapid v1.3.0
)

require github.com/ulikunitz/xz v0.5.10 // indirect

replace github.com/biogo/hts => /repo
