// verifctl builds one property's test binary from /repo's current working
// tree (hooks on), runs it in parallel shard processes, replays the pinned
// cases of known_findings.json, aggregates the shard statistics into
// evidence/<id>.json and prints VIOLATION / KNOWN-FINDING lines.
//
// exit 0: held on everything explored; 1: violation; 2: inconclusive.
package main

import (
	"bytes"
	"encoding/binary"
	"encoding/json"
	"fmt"
	"io"
	"os"
	"os/exec"
	"path/filepath"
	"regexp"
	"runtime"
	"sort"
	"strconv"
	"strings"
	"sync"
	"time"
)

type propCfg struct {
	Shards          int    `json:"shards"`
	TimeoutQuick    string `json:"timeout_quick"`
	TimeoutThorough string `json:"timeout_thorough"`
	Race            bool   `json:"race"`
	MemLimitMB      int    `json:"mem_limit_mb"`
	Fuzz            []struct {
		Target        string   `json:"target"`
		Time          string   `json:"time"`
		ReplayTargets []string `json:"replay_targets"`
	} `json:"fuzz"`
}

type finding struct {
	Status   string `json:"status"` // "known" | "fixed"
	Property string `json:"property"`
	ID       string `json:"id"`
	Line     string `json:"line"`
	Replay   string `json:"replay"`
	Region   string `json:"region,omitempty"`
}

type violation struct {
	Replay string `json:"replay"`
	Msg    string `json:"msg"`
}

type subStats struct {
	Evals      uint64            `json:"evals"`
	BulkNT     uint64            `json:"bulk_nt"`
	NTSeen     uint64            `json:"nt_seen"`
	Classes    map[string]uint64 `json:"classes"`
	Skips      map[string]uint64 `json:"skips"`
	Samples    []json.RawMessage `json:"samples"`
	NTSamples  []json.RawMessage `json:"nt_samples"`
	Violations []violation       `json:"violations"`
	Requested  int               `json:"requested"`
	Exhaustive bool              `json:"exhaustive"`
	WallS      float64           `json:"wall_s"`
}

type shardOut struct {
	Property string               `json:"property"`
	Shard    int                  `json:"shard"`
	Subs     map[string]*subStats `json:"subs"`
}

var root string

func main() {
	root, _ = os.Getwd()
	if v := os.Getenv("VERIF_ROOT"); v != "" {
		root = v
	}
	args := os.Args[1:]
	if len(args) < 1 {
		fmt.Fprintln(os.Stderr, "usage: verifctl <ID> [quick|thorough] [--replay file]")
		os.Exit(2)
	}
	id := strings.ToUpper(args[0])
	tier := os.Getenv("VERIF_TIER")
	replay := ""
	for i := 1; i < len(args); i++ {
		switch args[i] {
		case "quick", "thorough":
			tier = args[i]
		case "--replay":
			if i+1 < len(args) {
				replay = args[i+1]
				i++
			}
		}
	}
	if tier != "thorough" {
		tier = "quick"
	}
	os.Exit(run(id, tier, replay))
}

func goEnv() []string {
	env := os.Environ()
	env = append(env, "GOFLAGS=-mod=mod", "GOPROXY=off", "GOSUMDB=off", "GOTOOLCHAIN=local", "VERIF_ROOT="+root)
	if altTag() != "" {
		env = append(env, "VERIF_NEWDIR="+newDir())
	}
	return env
}

// Experiments only (seeded changes, background sweeps): VERIF_REPO=<dir> makes
// the checks build against another copy of biogo/hts instead of /repo. Such a
// run keeps its binaries, shard output, evidence and new replays apart
// (suffix -<tag>) and never writes evidence/<id>.json. The commands registered
// in MANIFEST.json do not set it.
func altRepo() string { return os.Getenv("VERIF_REPO") }

func altTag() string {
	if altRepo() == "" {
		return ""
	}
	if t := os.Getenv("VERIF_TAG"); t != "" {
		return t
	}
	return strings.Map(func(r rune) rune {
		if r >= 'a' && r <= 'z' || r >= 'A' && r <= 'Z' || r >= '0' && r <= '9' {
			return r
		}
		return '_'
	}, filepath.Base(altRepo()))
}

func suffix() string {
	if t := altTag(); t != "" {
		return "-" + t
	}
	return ""
}

func newDir() string { return filepath.Join(root, "replays", "new"+suffix()) }

// modfileArgs returns the -modfile flag for alternate-repository runs.
func modfileArgs() ([]string, error) {
	if altRepo() == "" {
		return nil, nil
	}
	dir := filepath.Join(root, ".alt", altTag())
	if err := os.MkdirAll(dir, 0o755); err != nil {
		return nil, err
	}
	mod, err := os.ReadFile(filepath.Join(root, "go.mod"))
	if err != nil {
		return nil, err
	}
	abs, err := filepath.Abs(altRepo())
	if err != nil {
		return nil, err
	}
	alt := strings.Replace(string(mod), "=> /repo", "=> "+abs, 1)
	if alt == string(mod) {
		return nil, fmt.Errorf("go.mod has no replace of /repo")
	}
	if err := os.WriteFile(filepath.Join(dir, "go.mod"), []byte(alt), 0o644); err != nil {
		return nil, err
	}
	sum, _ := os.ReadFile(filepath.Join(root, "go.sum"))
	os.WriteFile(filepath.Join(dir, "go.sum"), sum, 0o644)
	return []string{"-modfile=" + filepath.Join(dir, "go.mod")}, nil
}

func loadCfg(id string) propCfg {
	c := propCfg{Shards: 16, TimeoutQuick: "1500s", TimeoutThorough: "10800s"}
	b, err := os.ReadFile(filepath.Join(root, "props", strings.ToLower(id), "verif.json"))
	if err == nil {
		json.Unmarshal(b, &c)
	}
	if c.Shards <= 0 {
		c.Shards = 16
	}
	if n := runtime.NumCPU(); c.Shards > n {
		c.Shards = n
	}
	if v := os.Getenv("VERIF_SHARDS"); v != "" {
		if n, err := strconv.Atoi(v); err == nil && n > 0 {
			c.Shards = n
		}
	}
	return c
}

func build(id string, cfg propCfg) (string, error) {
	bin := filepath.Join(root, ".bin", id+suffix()+".test")
	os.MkdirAll(filepath.Dir(bin), 0o755)
	args := []string{"test", "-c", "-tags", "verif", "-o", bin}
	mf, err := modfileArgs()
	if err != nil {
		return "", err
	}
	args = append(args, mf...)
	if cfg.Race {
		args = append(args, "-race")
	}
	args = append(args, "./props/"+strings.ToLower(id))
	cmd := exec.Command("go", args...)
	cmd.Dir = root
	cmd.Env = goEnv()
	out, err := cmd.CombinedOutput()
	if err != nil {
		return "", fmt.Errorf("build failed: %v\n%s", err, out)
	}
	return bin, nil
}

func seed() string {
	s := os.Getenv("VERIF_SEED")
	if s == "" {
		s = "1"
	}
	return s
}

func seedInt() int64 {
	n, err := strconv.ParseInt(seed(), 0, 64)
	if err != nil {
		u, err2 := strconv.ParseUint(seed(), 0, 64)
		if err2 == nil {
			return int64(u)
		}
		return 1
	}
	return n
}

// runReplay runs one replay file in a fresh process; it reports
// (violated, output, ran).
func runReplay(bin string, cfg propCfg, path string, timeout time.Duration) (bool, string, bool) {
	cmd := exec.Command(bin, "-test.run", "^TestProp$", "-test.timeout", "0", "-test.count", "1")
	cmd.Dir = root
	cmd.Env = append(goEnv(), "VERIF_REPLAY="+path, "VERIF_TIER=quick")
	var buf bytes.Buffer
	cmd.Stdout, cmd.Stderr = &buf, &buf
	if err := cmd.Start(); err != nil {
		return false, err.Error(), false
	}
	done := make(chan error, 1)
	go func() { done <- cmd.Wait() }()
	select {
	case err := <-done:
		out := buf.String()
		switch {
		case strings.Contains(out, "REPLAY-VIOLATION"):
			return true, out, true
		case strings.Contains(out, "REPLAY-PASS"):
			return false, out, true
		case strings.Contains(out, "REPLAY-ERROR"):
			return false, out, false
		case err != nil:
			// the process died (fatal error, stack overflow, OOM kill): the case kills the process
			return true, "process died during replay:\n" + head(out, 30), true
		}
		return false, out, false
	case <-time.After(timeout):
		cmd.Process.Kill()
		<-done
		return true, "replay did not finish within " + timeout.String() + " (hang)\n" + tail(buf.String(), 30), true
	}
}

func head(s string, n int) string {
	lines := strings.Split(s, "\n")
	if len(lines) > n {
		lines = append(lines[:n], "...")
	}
	return strings.Join(lines, "\n")
}

func tail(s string, n int) string {
	lines := strings.Split(strings.TrimRight(s, "\n"), "\n")
	if len(lines) > n {
		lines = lines[len(lines)-n:]
	}
	return strings.Join(lines, "\n")
}

func loadFindings() []finding {
	b, err := os.ReadFile(filepath.Join(root, "known_findings.json"))
	if err != nil {
		return nil
	}
	var f struct {
		Findings []finding `json:"findings"`
	}
	if err := json.Unmarshal(b, &f); err != nil {
		fmt.Fprintf(os.Stderr, "known_findings.json: %v\n", err)
		return nil
	}
	return f.Findings
}

func levelFor(id string) string {
	b, err := os.ReadFile(filepath.Join(root, "MANIFEST.json"))
	if err != nil {
		return "exploration"
	}
	var m struct {
		Checks []struct {
			PropertyID string `json:"property_id"`
			Level      struct {
				Category string `json:"category"`
			} `json:"level_claimed"`
		} `json:"checks"`
	}
	if json.Unmarshal(b, &m) != nil {
		return "exploration"
	}
	for _, c := range m.Checks {
		if c.PropertyID == id && c.Level.Category != "" {
			return c.Level.Category
		}
	}
	return "exploration"
}

func run(id, tier, replay string) int {
	start := time.Now()
	cfg := loadCfg(id)
	if _, err := os.Stat(filepath.Join(root, "props", strings.ToLower(id))); err != nil {
		fmt.Printf("no check for property %s\n", id)
		return 2
	}
	bin, err := build(id, cfg)
	if err != nil {
		fmt.Println(err)
		fmt.Printf("INCONCLUSIVE property=%s reason=build\n", id)
		return 2
	}
	if replay != "" {
		v, out, ran := runReplay(bin, cfg, replay, 10*time.Minute)
		fmt.Println(strings.TrimSpace(out))
		if !ran {
			return 2
		}
		if v {
			fmt.Printf("VIOLATION property=%s replay=%s\n", id, replay)
			return 1
		}
		return 0
	}

	out := filepath.Join(root, ".out", id+suffix())
	os.RemoveAll(out)
	os.MkdirAll(out, 0o755)
	os.RemoveAll(filepath.Join(root, "props", strings.ToLower(id), "testdata", "rapid"))

	to := cfg.TimeoutQuick
	if tier == "thorough" {
		to = cfg.TimeoutThorough
	}
	budget, err := time.ParseDuration(to)
	if err != nil {
		budget = 5 * time.Minute
	}

	type res struct {
		shard    int
		err      error
		timedOut bool
		log      string
	}
	results := make([]res, cfg.Shards)
	runShard := func(i int) res {
		cmd := exec.Command(bin, "-test.run", "^TestProp$", "-test.timeout", (budget + 30*time.Second).String(), "-test.count", "1")
		cmd.Dir = root
		cmd.Env = append(goEnv(),
			"VERIF_TIER="+tier, "VERIF_SEED="+seed(),
			"VERIF_SHARD="+strconv.Itoa(i), "VERIF_NSHARDS="+strconv.Itoa(cfg.Shards),
			"VERIF_OUT="+out)
		if cfg.MemLimitMB > 0 {
			cmd.Env = append(cmd.Env, "GOMEMLIMIT="+strconv.Itoa(cfg.MemLimitMB*3/4)+"MiB", "VERIF_MEM_MB="+strconv.Itoa(cfg.MemLimitMB))
		}
		logf, _ := os.Create(filepath.Join(out, fmt.Sprintf("log_%d.txt", i)))
		defer logf.Close()
		cmd.Stdout, cmd.Stderr = logf, logf
		if err := cmd.Start(); err != nil {
			return res{shard: i, err: err}
		}
		done := make(chan error, 1)
		go func() { done <- cmd.Wait() }()
		select {
		case err := <-done:
			return res{shard: i, err: err}
		case <-time.After(budget + 60*time.Second):
			cmd.Process.Kill()
			<-done
			return res{shard: i, err: fmt.Errorf("killed after budget"), timedOut: true}
		}
	}
	var wg sync.WaitGroup
	for i := 0; i < cfg.Shards; i++ {
		wg.Add(1)
		go func(i int) {
			defer wg.Done()
			results[i] = runShard(i)
		}(i)
	}
	wg.Wait()

	// A shard process that died without having recorded a violation, and whose
	// current case does not fail when replayed alone, is started once more: the
	// run is a function of the seed, so the second attempt covers the same
	// cases. (Seen once: a segmentation fault inside the Go runtime's sweeper.)
	var restarted []int
	for i := 0; i < cfg.Shards; i++ {
		r := results[i]
		if r.err == nil || r.timedOut {
			continue
		}
		if b, err := os.ReadFile(filepath.Join(out, fmt.Sprintf("shard_%d.json", i))); err == nil {
			var so shardOut
			recorded := false
			if json.Unmarshal(b, &so) == nil {
				for _, sub := range so.Subs {
					recorded = recorded || len(sub.Violations) > 0
				}
			}
			if recorded {
				continue
			}
		}
		cur := filepath.Join(out, fmt.Sprintf("cur_%d.json", i))
		if cb, err := os.ReadFile(cur); err == nil && len(bytes.TrimSpace(cb)) > 0 {
			tmp := filepath.Join(out, fmt.Sprintf("died_%d.json", i))
			os.WriteFile(tmp, cb, 0o644)
			if v, _, ran := runReplay(bin, cfg, tmp, 2*time.Minute); ran && v {
				continue // reproduces: reported below
			}
		}
		os.Rename(filepath.Join(out, fmt.Sprintf("log_%d.txt", i)), filepath.Join(out, fmt.Sprintf("log_%d.first-attempt.txt", i)))
		results[i] = runShard(i)
		restarted = append(restarted, i)
	}

	// aggregate
	agg := map[string]*subStats{}
	fps := map[uint64]struct{}{}
	var viols []violation
	inconclusive := []string{}
	for i := 0; i < cfg.Shards; i++ {
		b, err := os.ReadFile(filepath.Join(out, fmt.Sprintf("shard_%d.json", i)))
		var so shardOut
		if err == nil {
			err = json.Unmarshal(b, &so)
		}
		if err != nil {
			so.Subs = nil
		}
		shardViol := false
		for name, s := range so.Subs {
			a := agg[name]
			if a == nil {
				a = &subStats{Classes: map[string]uint64{}, Skips: map[string]uint64{}}
				agg[name] = a
			}
			a.Evals += s.Evals
			a.BulkNT += s.BulkNT
			a.NTSeen += s.NTSeen
			a.Requested += s.Requested
			a.Exhaustive = a.Exhaustive || s.Exhaustive
			if s.WallS > a.WallS {
				a.WallS = s.WallS
			}
			for k, v := range s.Classes {
				a.Classes[k] += v
			}
			for k, v := range s.Skips {
				a.Skips[k] += v
			}
			if len(a.Samples) < 3 {
				a.Samples = append(a.Samples, s.Samples...)
			}
			if len(a.NTSamples) < 3 {
				a.NTSamples = append(a.NTSamples, s.NTSamples...)
			}
			for _, v := range s.Violations {
				viols = append(viols, v)
				shardViol = true
			}
		}
		if fb, err := os.ReadFile(filepath.Join(out, fmt.Sprintf("fp_%d.bin", i))); err == nil {
			for j := 0; j+8 <= len(fb); j += 8 {
				fps[binary.LittleEndian.Uint64(fb[j:])] = struct{}{}
			}
		}
		r := results[i]
		if r.err != nil && !shardViol {
			// the shard died or failed without recording a violation
			logb, _ := os.ReadFile(filepath.Join(out, fmt.Sprintf("log_%d.txt", i)))
			cur := filepath.Join(out, fmt.Sprintf("cur_%d.json", i))
			if cb, err := os.ReadFile(cur); err == nil && len(bytes.TrimSpace(cb)) > 0 && !r.timedOut {
				dst := filepath.Join(newDir(), fmt.Sprintf("%s-died-s%s-%d.json", id, seed(), i))
				os.MkdirAll(filepath.Dir(dst), 0o755)
				os.WriteFile(dst, cb, 0o644)
				v, o, ran := runReplay(bin, cfg, dst, 2*time.Minute)
				if ran && v {
					viols = append(viols, violation{Replay: dst, Msg: "shard process died; the case it was running reproduces: " + tail(o, 15)})
					continue
				}
			}
			// The case may not fail when replayed alone (a panic in one of the
			// library's background goroutines depends on timing), but a panic whose
			// goroutine has frames of the library under test took the process down
			// twice (the shard was started again once): that is the library's doing.
			if msg := libraryPanic(string(logb)); msg != "" && !r.timedOut {
				dst := filepath.Join(newDir(), fmt.Sprintf("%s-died-s%s-%d.json", id, seed(), i))
				if _, err := os.Stat(dst); err != nil {
					dst = "(no case file)"
				}
				viols = append(viols, violation{Replay: dst, Msg: "a goroutine of the library panicked and killed the process (the case that was running does not fail when replayed alone):\n" + msg})
				continue
			}
			why := "shard " + strconv.Itoa(i) + " failed without a recorded violation"
			if r.timedOut {
				why = "shard " + strconv.Itoa(i) + " exceeded its time budget"
			}
			inconclusive = append(inconclusive, why+":\n"+tail(string(logb), 25))
		}
	}

	// native coverage-guided fuzzing (thorough tier only; cannot be pinned to a seed)
	fuzzStats := map[string]any{}
	var fuzzExecs uint64
	if tier == "thorough" && os.Getenv("VERIF_NOFUZZ") == "" {
		for _, fz := range cfg.Fuzz {
			execs, crashers, out, ferr := runFuzz(id, fz.Target, fz.Time)
			fuzzExecs += execs
			fuzzStats[fz.Target] = map[string]any{"execs": execs, "fuzztime": fz.Time, "crashers": len(crashers)}
			if ferr != nil && len(crashers) == 0 {
				inconclusive = append(inconclusive, "native fuzzing of "+fz.Target+" failed without leaving an input: "+tail(out, 12))
				continue
			}
			for ci, data := range crashers {
				reproduced := false
				for _, rt := range fz.ReplayTargets {
					dst := filepath.Join(newDir(), fmt.Sprintf("%s-fuzz-%s-%s-%d.json", id, fz.Target, rt, ci))
					os.MkdirAll(filepath.Dir(dst), 0o755)
					cj, _ := json.MarshalIndent(map[string]any{"property": id, "sub": "mutated_encodings", "message": "input found by go test -fuzz " + fz.Target,
						"case": map[string]any{"Target": rt, "Seed": 0, "Muts": nil, "Cram": nil, "Raw": fmt.Sprintf("%x", data)}}, "", " ")
					os.WriteFile(dst, cj, 0o644)
					if v, o, ran := runReplay(bin, cfg, dst, 3*time.Minute); ran && v {
						viols = append(viols, violation{Replay: dst, Msg: "found by native fuzzing (" + fz.Target + "): " + tail(o, 12)})
						reproduced = true
						break
					}
					os.Remove(dst)
				}
				if !reproduced {
					fmt.Printf("note: an input reported by go test -fuzz %s does not reproduce in the isolated replay (oversize or load related); not counted\n", fz.Target)
				}
			}
		}
	}

	// pinned replays of recorded findings
	var knownLines []string
	for _, f := range loadFindings() {
		if f.Property != id || f.Replay == "" {
			continue
		}
		p := f.Replay
		if !filepath.IsAbs(p) {
			p = filepath.Join(root, p)
		}
		v, o, ran := runReplay(bin, cfg, p, 2*time.Minute)
		switch {
		case !ran:
			inconclusive = append(inconclusive, "pinned replay "+f.Replay+" could not run: "+tail(o, 5))
		case f.Status == "fixed" && v:
			viols = append(viols, violation{Replay: p, Msg: "regression of a repaired defect (" + f.ID + "): " + tail(o, 10)})
		case f.Status == "known" && v:
			knownLines = append(knownLines, fmt.Sprintf("KNOWN-FINDING: property=%s %s", id, strings.TrimPrefix(strings.TrimPrefix(f.Line, "known: "), "property="+id+" ")))
		case f.Status == "known" && !v:
			fmt.Printf("note: known finding %s no longer reproduces on this tree\n", f.ID)
		}
	}

	// evidence
	var evals, bulkNT, ntSeen uint64
	classes := map[string]uint64{}
	skips := map[string]uint64{}
	var samples []json.RawMessage
	perSub := map[string]any{}
	names := make([]string, 0, len(agg))
	for n := range agg {
		names = append(names, n)
	}
	sort.Strings(names)
	exhaustive := false
	for _, n := range names {
		a := agg[n]
		evals += a.Evals
		bulkNT += a.BulkNT
		ntSeen += a.NTSeen
		exhaustive = exhaustive || a.Exhaustive
		for k, v := range a.Classes {
			classes[n+"/"+k] += v
		}
		for k, v := range a.Skips {
			skips[n+"/"+k] += v
		}
		for i, s := range a.NTSamples {
			if i < 2 {
				samples = append(samples, wrapSample(n, true, s))
			}
		}
		for i, s := range a.Samples {
			if i < 1 {
				samples = append(samples, wrapSample(n, false, s))
			}
		}
		perSub[n] = map[string]any{"evaluations": a.Evals, "nontrivial_seen": a.NTSeen, "enumerated_distinct_nontrivial": a.BulkNT,
			"requested_per_run": a.Requested, "exhaustive": a.Exhaustive, "wall_s": a.WallS}
	}
	distinct := uint64(len(fps)) + bulkNT
	cov := map[string]any{
		"evaluations":         evals,
		"distinct_nontrivial": distinct,
		"rule":                ruleFor(id),
		"samples":             samples,
		"classes":             classes,
		"out_of_domain":       skips,
		"per_sub_check":       perSub,
		"nontrivial_seen_including_duplicates": ntSeen,
		"shards":              cfg.Shards,
		"exhaustive":          exhaustive,
		"known_findings_reported": len(knownLines),
	}
	if len(fuzzStats) > 0 {
		cov["native_fuzz"] = fuzzStats
		cov["evaluations"] = evals + fuzzExecs
	}
	if len(inconclusive) > 0 {
		cov["inconclusive"] = inconclusive
	}
	if len(restarted) > 0 {
		cov["shards_restarted_after_a_crash_that_did_not_reproduce"] = restarted
	}
	ev := map[string]any{
		"property_id": id,
		"tier":        tier,
		"seed":        seedInt(),
		"level":       levelFor(id),
		"coverage":    cov,
		"assumptions": assumptionsFor(id),
		"wall_s":      time.Since(start).Seconds(),
		"violations":  len(viols),
	}
	eb, _ := json.MarshalIndent(ev, "", " ")
	if altTag() != "" {
		os.WriteFile(filepath.Join(out, "evidence.json"), eb, 0o644)
	} else {
		os.MkdirAll(filepath.Join(root, "evidence"), 0o755)
		os.WriteFile(filepath.Join(root, "evidence", id+".json"), eb, 0o644)
	}

	for _, l := range knownLines {
		fmt.Println(l)
	}
	fmt.Printf("%s %s: %d evaluations, %d distinct non-trivial, %d violation(s), %.1fs\n", id, tier, evals, distinct, len(viols), time.Since(start).Seconds())
	if len(viols) > 0 {
		// one line per distinct failure message (shards usually shrink to the same case), at most 8
		sort.SliceStable(viols, func(i, j int) bool { return len(viols[i].Msg) < len(viols[j].Msg) })
		seen := map[string]bool{}
		shown := 0
		for _, v := range viols {
			key := filepath.Base(v.Replay)
			if i := strings.Index(key, "-s"); i > 0 {
				key = key[:i]
			}
			key += "|" + trunc(v.Msg, 160)
			if seen[key] || seen[v.Replay] {
				continue
			}
			seen[key], seen[v.Replay] = true, true
			if shown++; shown > 8 {
				continue
			}
			fmt.Printf("  %s\n", strings.ReplaceAll(head(trunc(v.Msg, 1200), 12), "\n", "\n  "))
			fmt.Printf("VIOLATION property=%s replay=%s\n", id, v.Replay)
		}
		if shown > 8 {
			fmt.Printf("  (%d further distinct violation reports not shown; see %s)\n", shown-8, newDir())
		}
		return 1
	}
	if len(inconclusive) > 0 {
		for _, s := range inconclusive {
			fmt.Println("INCONCLUSIVE:", s)
		}
		fmt.Printf("INCONCLUSIVE property=%s\n", id)
		return 2
	}
	if evals == 0 {
		fmt.Printf("INCONCLUSIVE property=%s reason=no-evaluations\n", id)
		return 2
	}
	return 0
}

var execsRe = regexp.MustCompile(`execs: (\d+)`)

// libraryPanic returns the panic message and the first frames of the panicking
// goroutine if a process log shows an unrecovered panic in a goroutine that has
// frames of the library under test and none of the harness.
func libraryPanic(log string) string {
	i := strings.Index(log, "\npanic: ")
	if i < 0 {
		if !strings.HasPrefix(log, "panic: ") {
			return ""
		}
		i = -1
	}
	rest := log[i+1:]
	if strings.Contains(rest, "test timed out") {
		return ""
	}
	j := strings.Index(rest, "\ngoroutine ")
	if j < 0 {
		return ""
	}
	g := rest[j+1:]
	if k := strings.Index(g, "\n\n"); k > 0 {
		g = g[:k]
	}
	if !strings.Contains(g, "github.com/biogo/hts/") || strings.Contains(g, "verif/") {
		return ""
	}
	return head(rest[:j]+"\n"+g, 24)
}

// runFuzz runs one native fuzz target and returns the executions it reports and any new crasher inputs.
func runFuzz(id, target, dur string) (uint64, [][]byte, string, error) {
	pkg := "./props/" + strings.ToLower(id)
	dir := filepath.Join(root, "props", strings.ToLower(id), "testdata", "fuzz", target)
	os.RemoveAll(dir)
	fargs := []string{"test", "-tags", "verif"}
	if mf, err := modfileArgs(); err == nil {
		fargs = append(fargs, mf...)
	}
	fargs = append(fargs, "-run", "^$", "-fuzz", "^"+target+"$", "-fuzztime", dur, pkg)
	cmd := exec.Command("go", fargs...)
	cmd.Dir = root
	cmd.Env = goEnv()
	out, err := cmd.CombinedOutput()
	var execs uint64
	for _, m := range execsRe.FindAllStringSubmatch(string(out), -1) {
		if n, e := strconv.ParseUint(m[1], 10, 64); e == nil && n > execs {
			execs = n
		}
	}
	var crashers [][]byte
	if ents, e := os.ReadDir(dir); e == nil {
		for _, ent := range ents {
			b, e := os.ReadFile(filepath.Join(dir, ent.Name()))
			if e != nil {
				continue
			}
			lines := strings.Split(string(b), "\n")
			if len(lines) >= 2 && strings.HasPrefix(lines[1], "[]byte(") {
				q := strings.TrimSuffix(strings.TrimPrefix(lines[1], "[]byte("), ")")
				if u, e := strconv.Unquote(q); e == nil {
					crashers = append(crashers, []byte(u))
				}
			}
		}
	}
	os.RemoveAll(filepath.Join(root, "props", strings.ToLower(id), "testdata"))
	return execs, crashers, string(out), err
}

func wrapSample(sub string, nt bool, s json.RawMessage) json.RawMessage {
	b, _ := json.Marshal(map[string]any{"sub_check": sub, "nontrivial": nt, "case": s})
	return b
}

func trunc(s string, n int) string {
	if len(s) > n {
		return s[:n] + "…"
	}
	return s
}

type meta struct {
	Rule        string   `json:"rule"`
	Assumptions []string `json:"assumptions"`
}

func loadMeta(id string) meta {
	var m meta
	b, err := os.ReadFile(filepath.Join(root, "props", strings.ToLower(id), "meta.json"))
	if err == nil {
		json.Unmarshal(b, &m)
	}
	return m
}

func ruleFor(id string) string {
	if r := loadMeta(id).Rule; r != "" {
		return r
	}
	return "see DESIGN.md section 3, " + id
}

func assumptionsFor(id string) []string {
	a := loadMeta(id).Assumptions
	if a == nil {
		a = []string{}
	}
	return a
}

var _ = io.Discard
