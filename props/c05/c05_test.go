// C05: BAM encoding round trip: Writer -> Reader reproduces header and every record field;
// the bytes are those of an independent encoder; Omit modes drop exactly the omitted parts.
package c05

import (
	"bytes"
	"fmt"
	"io"
	"testing"
	"time"

	"github.com/biogo/hts/bam"
	"github.com/biogo/hts/sam"
	"pgregory.net/rapid"

	"verif/internal/bz"
	"verif/internal/h"
	"verif/internal/sb"
)

type Case struct {
	H      sb.HSpec
	Recs   []sb.ARec
	WC, RD int
	Level  int
}

var knownH = h.KnownRegion("C05", "aux-type-H")

func draw(t *rapid.T) Case {
	c := Case{H: sb.HSpecGen(0, 4).Draw(t, "header")}
	opt := sb.RecOpt{NRefs: len(c.H.Refs), BigSizes: true}
	c.Recs = rapid.SliceOfN(sb.RecGen(opt), 0, 12).Draw(t, "recs")
	c.WC = rapid.SampledFrom([]int{1, 2, 4}).Draw(t, "wc")
	c.RD = rapid.SampledFrom([]int{1, 2, 4}).Draw(t, "rd")
	c.Level = rapid.SampledFrom([]int{-1, 0, 1, 6}).Draw(t, "level")
	return c
}

func hasH(r sb.ARec) bool {
	for _, a := range r.Aux {
		if a.Ty == 'H' {
			return true
		}
	}
	return false
}

func run(c Case, rec *h.Rec) {
	// Known finding aux-type-H: the library stores the decoded bytes of an H
	// value where the specification stores the hex digits. Records with H fields
	// are still generated and checked; only the spelling of the H payload itself
	// is expected the library's way (a payload holding a zero byte cannot be
	// stored that way at all and is left out).
	sb.HStoredRaw = false
	if knownH && !h.Replaying() {
		for _, r := range c.Recs {
			for _, a := range r.Aux {
				if a.Ty != 'H' {
					continue
				}
				for i := 0; i+1 < len(a.S); i += 2 {
					if a.S[i] == '0' && a.S[i+1] == '0' {
						rec.Skip("known:aux-type-H (payload with a zero byte)")
						return
					}
				}
				sb.HStoredRaw = true
			}
		}
		rec.ClassIf(sb.HStoredRaw, "known:aux-type-H payload compared in the library's spelling")
	}
	defer func() { sb.HStoredRaw = false }()
	hd, err := c.H.Build()
	if err != nil {
		rec.Failf("building the header through the API failed: %v", err)
		return
	}
	var libRecs []*sam.Record
	for i, r := range c.Recs {
		lr, err := r.LibRecord(hd)
		if err != nil {
			rec.Failf("building record %d through the API failed: %v", i, err)
			return
		}
		libRecs = append(libRecs, lr)
	}
	var out bytes.Buffer
	var werr string
	if !h.Call(60*time.Second, func() {
		w, err := bam.NewWriterLevel(&out, hd, c.Level, c.WC)
		if err != nil {
			werr = "NewWriterLevel: " + err.Error()
			return
		}
		for i, lr := range libRecs {
			if err := w.Write(lr); err != nil {
				werr = fmt.Sprintf("Write(record %d): %v", i, err)
				return
			}
		}
		if err := w.Close(); err != nil {
			werr = "Close: " + err.Error()
		}
	}) {
		rec.Failf("BAM writer did not return within 60s")
		return
	}
	if werr != "" {
		rec.Failf("writing a representable BAM failed: %s", werr)
		return
	}

	// oracle 2: independent encoder
	payload, err := bz.GunzipAll(out.Bytes())
	if err != nil {
		rec.Failf("compress/gzip cannot expand the BAM stream: %v", err)
		return
	}
	text, _ := hd.MarshalText()
	want := sb.SpecBAMHeader(text, c.H.Refs)
	hdrLen := len(want)
	for _, r := range c.Recs {
		want = append(want, sb.SpecBAMRecord(r)...)
	}
	got := append([]byte(nil), payload...)
	sb.MaskBin(got, hdrLen)
	if !bytes.Equal(got, want) {
		d := firstDiff(got, want)
		where := "header"
		if d >= hdrLen {
			off := hdrLen
			for i, r := range c.Recs {
				n := len(sb.SpecBAMRecord(r))
				if d < off+n {
					where = fmt.Sprintf("record %d (%s) at byte %d of %d of the record", i, describe(r), d-off, n)
					break
				}
				off += n
			}
		}
		rec.Failf("bytes under the BGZF layer (%d) differ from the specification encoder's (%d) at offset %d, in %s: got % x, want % x", len(got), len(want), d, where, window(got, d), window(want, d))
		return
	}

	// oracle 1: read back, all Omit modes
	for omit := 0; omit <= 2; omit++ {
		var msg string
		if !h.Call(60*time.Second, func() { msg = readBack(c, out.Bytes(), hd, libRecs, omit) }) {
			dl, where := h.Deadlocked("hts/")
			rec.Failf("BAM reader (Omit=%d) did not finish within 60s (deadlock signature %v)\n%s", omit, dl, where)
			return
		}
		if msg != "" {
			rec.Failf("Omit=%d rd=%d: %s", omit, c.RD, msg)
			return
		}
	}
	odd, big, span, arr, otherMate := false, false, false, false, false
	for _, r := range c.Recs {
		n := len(sb.SpecBAMRecord(r))
		odd = odd || r.SeqLen%2 == 1
		big = big || n > 4096
		span = span || n > bz.BlockSize
		for _, a := range r.Aux {
			arr = arr || a.Ty == 'B' || a.Ty == 'H'
		}
		otherMate = otherMate || (r.Mate >= 0 && r.Mate != r.Ref)
	}
	rec.ClassIf(odd, "odd_length_seq")
	rec.ClassIf(big, "record_over_4096_bytes")
	rec.ClassIf(span, "record_larger_than_a_block")
	rec.ClassIf(arr, "array_or_hex_aux")
	rec.ClassIf(otherMate, "mate_on_other_reference")
	rec.ClassIf(len(c.Recs) == 0, "no_records")
	rec.NTIf(len(c.Recs) >= 2 && (odd || big || span || arr || otherMate))
}

func describe(r sb.ARec) string {
	return fmt.Sprintf("name %q seqlen %d ncigar %d aux %d", r.Name, r.SeqLen, len(r.CigarOps()), len(r.Aux))
}

func window(b []byte, at int) []byte {
	lo, hi := at-4, at+8
	if lo < 0 {
		lo = 0
	}
	if hi > len(b) {
		hi = len(b)
	}
	if lo > hi {
		lo = hi
	}
	return b[lo:hi]
}

func readBack(c Case, data []byte, hd *sam.Header, written []*sam.Record, omit int) string {
	r, err := bam.NewReader(bytes.NewReader(data), c.RD)
	if err != nil {
		return "NewReader: " + err.Error()
	}
	defer r.Close()
	r.Omit(omit)
	rh := r.Header()
	// header equality
	t1, _ := hd.MarshalText()
	t2, _ := rh.MarshalText()
	if !bytes.Equal(t1, t2) {
		return fmt.Sprintf("header text changed:\n%q\n%q", t1, t2)
	}
	if len(rh.Refs()) != len(hd.Refs()) {
		return fmt.Sprintf("reader header has %d references, written %d", len(rh.Refs()), len(hd.Refs()))
	}
	for i, ref := range rh.Refs() {
		w := hd.Refs()[i]
		if ref.ID() != i || ref.Name() != w.Name() || ref.Len() != w.Len() {
			return fmt.Sprintf("reference %d: id %d name %q len %d, written id %d name %q len %d", i, ref.ID(), ref.Name(), ref.Len(), w.ID(), w.Name(), w.Len())
		}
	}
	var got []*sam.Record
	for {
		rec, err := r.Read()
		if err == io.EOF {
			break
		}
		if err != nil {
			return fmt.Sprintf("Read of record %d: %v", len(got), err)
		}
		got = append(got, rec)
		if len(got) > len(written) {
			return fmt.Sprintf("reader returned more than the %d records written", len(written))
		}
	}
	if len(got) != len(written) {
		return fmt.Sprintf("reader returned %d records then io.EOF, %d were written", len(got), len(written))
	}
	if _, err := r.Read(); err != io.EOF {
		return fmt.Sprintf("Read after io.EOF returned %v", err)
	}
	// compare only now, after everything was read (aliasing of the shared read buffer would show here)
	for i, g := range got {
		w := written[i]
		a := c.Recs[i]
		if g.Name != w.Name {
			return fmt.Sprintf("record %d: name %q, written %q", i, g.Name, w.Name)
		}
		if a.Ref >= 0 {
			if g.Ref != rh.Refs()[a.Ref] {
				return fmt.Sprintf("record %d: Ref is not reference %d of the reader's header", i, a.Ref)
			}
		} else if g.Ref != nil {
			return fmt.Sprintf("record %d: Ref=%v, written none", i, g.Ref.Name())
		}
		if a.Mate >= 0 {
			if g.MateRef != rh.Refs()[a.Mate] {
				return fmt.Sprintf("record %d: MateRef is not reference %d of the reader's header", i, a.Mate)
			}
		} else if g.MateRef != nil {
			return fmt.Sprintf("record %d: MateRef=%v, written none", i, g.MateRef.Name())
		}
		if g.Pos != w.Pos || g.MatePos != w.MatePos || g.TempLen != w.TempLen || g.MapQ != w.MapQ || g.Flags != w.Flags {
			return fmt.Sprintf("record %d: pos/matepos/tlen/mapq/flags = %d/%d/%d/%d/%d, written %d/%d/%d/%d/%d", i, g.Pos, g.MatePos, g.TempLen, g.MapQ, g.Flags, w.Pos, w.MatePos, w.TempLen, w.MapQ, w.Flags)
		}
		if len(g.Cigar) != len(w.Cigar) {
			return fmt.Sprintf("record %d: %d CIGAR ops, written %d", i, len(g.Cigar), len(w.Cigar))
		}
		for k := range g.Cigar {
			if g.Cigar[k] != w.Cigar[k] {
				return fmt.Sprintf("record %d: CIGAR op %d = %v, written %v", i, k, g.Cigar[k], w.Cigar[k])
			}
		}
		if omit >= bam.AllVariableLengthData {
			if g.Seq.Length != 0 || len(g.Seq.Seq) != 0 || len(g.Qual) != 0 || len(g.AuxFields) != 0 {
				return fmt.Sprintf("record %d: Omit(AllVariableLengthData) left seq length %d, %d qualities, %d aux fields", i, g.Seq.Length, len(g.Qual), len(g.AuxFields))
			}
			continue
		}
		if g.Seq.Length != a.SeqLen || !bytes.Equal(g.Seq.Expand(), a.SeqBytes()) {
			return fmt.Sprintf("record %d: sequence (length %d) differs from the %d bases written (first difference at %d)", i, g.Seq.Length, a.SeqLen, firstDiff(g.Seq.Expand(), a.SeqBytes()))
		}
		wq := a.QualBytes()
		if wq == nil {
			wq = bytes.Repeat([]byte{0xff}, a.SeqLen)
		}
		if !bytes.Equal(g.Qual, wq) {
			return fmt.Sprintf("record %d: qualities differ from those written (first difference at %d of %d)", i, firstDiff(g.Qual, wq), len(wq))
		}
		if omit >= bam.AuxTags {
			if len(g.AuxFields) != 0 {
				return fmt.Sprintf("record %d: Omit(AuxTags) left %d aux fields", i, len(g.AuxFields))
			}
			continue
		}
		if len(g.AuxFields) != len(w.AuxFields) {
			return fmt.Sprintf("record %d: %d aux fields, written %d", i, len(g.AuxFields), len(w.AuxFields))
		}
		for k := range g.AuxFields {
			if !bytes.Equal([]byte(g.AuxFields[k]), []byte(w.AuxFields[k])) {
				return fmt.Sprintf("record %d: aux field %d = % x, written % x", i, k, trunc([]byte(g.AuxFields[k])), trunc([]byte(w.AuxFields[k])))
			}
		}
	}
	return ""
}

func trunc(b []byte) []byte {
	if len(b) > 40 {
		return b[:40]
	}
	return b
}

func firstDiff(a, b []byte) int {
	for i := range a {
		if i >= len(b) || a[i] != b[i] {
			return i
		}
	}
	return len(a)
}

func TestProp(t *testing.T) {
	h.Main(t, "C05", h.Rapid("bam_roundtrip", h.Opt{Quick: 3000, Thorough: 80000}, draw, run))
}
