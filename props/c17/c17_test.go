// C17: chunk merge strategies never lose coverage.
package c17

import (
	"fmt"
	"math"
	"sort"
	"testing"

	"github.com/biogo/hts/bgzf"
	"github.com/biogo/hts/bgzf/index"
	"pgregory.net/rapid"

	"verif/internal/h"
)

type Off struct {
	F int64
	B uint16
}
type Ch struct{ B, E Off }

type Case struct {
	Chunks   []Ch
	Strategy string // identity, adjacent, squash, compressor
	Near     int64
}

func v(o Off) uint64 { return uint64(o.F)<<16 | uint64(o.B) } // unsigned: file offsets reach 2^48-1

func toLib(cs []Ch) []bgzf.Chunk {
	out := make([]bgzf.Chunk, len(cs))
	for i, c := range cs {
		out[i] = bgzf.Chunk{Begin: bgzf.Offset{File: c.B.F, Block: c.B.B}, End: bgzf.Offset{File: c.E.F, Block: c.E.B}}
	}
	return out
}

type iv struct{ lo, hi uint64 }

// union returns the covered half-open ranges of virtual-offset space, normalised.
func union(cs []bgzf.Chunk) []iv {
	var x []iv
	for _, c := range cs {
		lo, hi := vo(c.Begin), vo(c.End)
		if hi > lo {
			x = append(x, iv{lo, hi})
		}
	}
	sort.Slice(x, func(i, j int) bool { return x[i].lo < x[j].lo })
	var out []iv
	for _, r := range x {
		if len(out) > 0 && r.lo <= out[len(out)-1].hi {
			if r.hi > out[len(out)-1].hi {
				out[len(out)-1].hi = r.hi
			}
			continue
		}
		out = append(out, r)
	}
	return out
}

func covers(big, small []iv) (bool, iv) {
	j := 0
	for _, s := range small {
		for j < len(big) && big[j].hi < s.hi {
			j++
		}
		if j == len(big) || big[j].lo > s.lo || big[j].hi < s.hi {
			return false, s
		}
	}
	return true, iv{}
}

func strategy(c Case) index.MergeStrategy {
	switch c.Strategy {
	case "identity":
		return index.Identity
	case "adjacent":
		return index.Adjacent
	case "squash":
		return index.Squash
	}
	// one strategy value serves many lists (Index.MergeChunks applies it to every
	// bin): it has been applied to two other lists, one in which nothing merges
	// and one in which everything does, before it gets the list of the case
	st := index.CompressorStrategy(c.Near)
	st([]bgzf.Chunk{{Begin: bgzf.Offset{File: 7, Block: 1}, End: bgzf.Offset{File: 7, Block: 9}}})
	st([]bgzf.Chunk{{Begin: bgzf.Offset{File: 3}, End: bgzf.Offset{File: 4}}, {Begin: bgzf.Offset{File: 3, Block: 2}, End: bgzf.Offset{File: 5}}, {Begin: bgzf.Offset{File: 1 << 30}, End: bgzf.Offset{File: 1<<30 + 1}}})
	return st
}

func vo(o bgzf.Offset) uint64 { return uint64(o.File)<<16 | uint64(o.Block) }

func run(c Case, rec *h.Rec) {
	in := toLib(c.Chunks)
	orig := append([]bgzf.Chunk(nil), in...)
	s := strategy(c)
	out := s(in)
	// sorted by begin
	for i := 1; i < len(out); i++ {
		if vo(out[i-1].Begin) > vo(out[i].Begin) {
			rec.Failf("%s(%v) output not sorted by begin: %v", c.Strategy, orig, out)
			return
		}
	}
	ui, uo := union(orig), union(out)
	if ok, miss := covers(uo, ui); !ok {
		rec.Failf("%s near=%d: input %v covers virtual range [%#x,%#x) but output %v does not", c.Strategy, c.Near, orig, miss.lo, miss.hi, out)
		return
	}
	switch c.Strategy {
	case "identity":
		if len(out) != len(orig) {
			rec.Failf("identity changed the list: %v -> %v", orig, out)
			return
		}
		for i := range out {
			if out[i] != orig[i] {
				rec.Failf("identity changed the list: %v -> %v", orig, out)
				return
			}
		}
	case "adjacent":
		if ok, extra := covers(ui, uo); !ok {
			rec.Failf("adjacent: output %v covers [%#x,%#x) which input %v does not", out, extra.lo, extra.hi, orig)
			return
		}
		for i := 1; i < len(out); i++ {
			if !(vo(out[i-1].End) < vo(out[i].Begin)) {
				rec.Failf("adjacent(%v): neighbours not separated in %v", orig, out)
				return
			}
		}
	case "squash":
		if len(orig) == 0 {
			if len(out) != 0 {
				rec.Failf("squash(empty) = %v", out)
			}
			break
		}
		mb, me := orig[0].Begin, orig[0].End
		for _, x := range orig {
			if vo(x.Begin) < vo(mb) {
				mb = x.Begin
			}
			if vo(x.End) > vo(me) {
				me = x.End
			}
		}
		if len(out) != 1 || out[0].Begin != mb || out[0].End != me {
			rec.Failf("squash(%v) = %v, want the single enclosing chunk {%v %v}", orig, out, mb, me)
			return
		}
	case "compressor":
		for i := 1; i < len(out); i++ {
			d := out[i].Begin.File - out[i-1].End.File
			if d < c.Near {
				rec.Failf("compressor(%d)(%v): neighbours %v and %v are %d apart", c.Near, orig, out[i-1], out[i], d)
				return
			}
			if d == c.Near {
				rec.Class("neighbours_exactly_near_apart_left_unmerged")
			}
		}
	}
	// idempotence
	first := append([]bgzf.Chunk(nil), out...)
	again := s(append([]bgzf.Chunk(nil), out...))
	if len(again) != len(first) {
		rec.Failf("%s near=%d not idempotent on %v: %v then %v", c.Strategy, c.Near, orig, first, again)
		return
	}
	for i := range again {
		if again[i] != first[i] {
			rec.Failf("%s near=%d not idempotent on %v: %v then %v", c.Strategy, c.Near, orig, first, again)
			return
		}
	}
	// classification
	nested, touching, zero, dup := false, false, false, false
	for i := range orig {
		if vo(orig[i].Begin) == vo(orig[i].End) {
			zero = true
		}
		for j := i + 1; j < len(orig); j++ {
			if orig[i] == orig[j] {
				dup = true
			}
			if vo(orig[j].End) < vo(orig[i].End) {
				nested = true
			}
			if vo(orig[i].End) == vo(orig[j].Begin) {
				touching = true
			}
		}
	}
	rec.ClassIf(nested, "nested")
	rec.ClassIf(touching, "touching")
	rec.ClassIf(zero, "zero_length")
	rec.ClassIf(dup, "duplicate")
	rec.ClassIf(len(orig) == 0, "empty")
	rec.ClassIf(len(out) < len(orig), "merged_something")
	rec.NTIf(len(orig) >= 2 && (nested || touching || len(out) < len(orig)) && c.Strategy != "identity")
}

var strategies = []struct {
	name string
	near int64
}{{"identity", 0}, {"adjacent", 0}, {"squash", 0}, {"compressor", -1}, {"compressor", 0}, {"compressor", 1}, {"compressor", 2}, {"compressor", 5}, {"compressor", 1 << 40}}

func enum(ctx *h.Ctx) {
	alpha := []Off{{0, 0}, {0, 7}, {1, 0}, {1, 7}, {3, 2}}
	maxLen := 4
	if ctx.Thorough() {
		alpha = append(alpha, Off{8, 0})
		maxLen = 5
	}
	var chunks []Ch
	for i, b := range alpha {
		for _, e := range alpha[i:] {
			chunks = append(chunks, Ch{b, e})
		}
	}
	idx := 0
	// iterative deepening: all lists of length 0, then 1, ... so the first
	// failure a shard meets is a shortest one.
	var rec func(cur []Ch, want int) bool
	rec = func(cur []Ch, want int) bool {
		if len(cur) == want {
			idx++
			if !ctx.Mine(idx) {
				return true
			}
			for _, s := range strategies {
				c := Case{Chunks: append([]Ch(nil), cur...), Strategy: s.name, Near: s.near}
				r := &h.Rec{}
				h.Safe(r, "strategy", func() { run(c, r) })
				if !ctx.Case(c, r) {
					return false
				}
			}
			return true
		}
		for _, ch := range chunks {
			if len(cur) > 0 && v(ch.B) < v(cur[len(cur)-1].B) {
				continue
			}
			if !rec(append(cur, ch), want) {
				return false
			}
		}
		return true
	}
	for l := 0; l <= maxLen; l++ {
		if !rec(nil, l) {
			return
		}
	}
	ctx.MarkExhaustive()
}

func chunkGen(small bool) *rapid.Generator[Ch] {
	return rapid.Custom(func(t *rapid.T) Ch {
		off := func(label string) Off {
			if small {
				return Off{int64(rapid.IntRange(0, 6).Draw(t, label+"F")), uint16(rapid.IntRange(0, 3).Draw(t, label+"B"))}
			}
			if rapid.IntRange(0, 3).Draw(t, label+"top") == 0 {
				// the upper half of the 48-bit file offset range (negative as a signed virtual offset)
				return Off{rapid.Int64Range(1<<47-2, 1<<48-1).Draw(t, label+"F"), rapid.Uint16().Draw(t, label+"B")}
			}
			return Off{rapid.Int64Range(0, 1<<40).Draw(t, label+"F"), rapid.Uint16().Draw(t, label+"B")}
		}
		b := off("b")
		var e Off
		switch rapid.IntRange(0, 3).Draw(t, "ekind") {
		case 0:
			e = b
		case 1:
			e = Off{b.F, b.B}
			d := rapid.IntRange(0, 40).Draw(t, "db")
			if int(e.B)+d <= 0xffff {
				e.B += uint16(d)
			}
		default:
			e = off("e")
			if v(e) < v(b) {
				b, e = e, b
			}
		}
		return Ch{b, e}
	})
}

func draw(t *rapid.T) Case {
	small := rapid.Bool().Draw(t, "small")
	cs := rapid.SliceOfN(chunkGen(small), 0, 30).Draw(t, "chunks")
	sort.SliceStable(cs, func(i, j int) bool { return v(cs[i].B) < v(cs[j].B) })
	s := rapid.SampledFrom(strategies).Draw(t, "strategy")
	near := s.near
	if s.name == "compressor" && rapid.Bool().Draw(t, "anyNear") {
		near = rapid.Int64Range(-3, 10).Draw(t, "near")
		if rapid.IntRange(0, 5).Draw(t, "hugeNear") == 0 {
			// thresholds beyond any file offset: everything is within reach of everything
			near = rapid.SampledFrom([]int64{1 << 40, 1 << 47, 1 << 48, 1 << 50, 1 << 62, math.MaxInt64 - 1, math.MaxInt64}).Draw(t, "huge")
		}
	}
	return Case{Chunks: cs, Strategy: s.name, Near: near}
}

func TestProp(t *testing.T) {
	h.Main(t, "C17",
		h.Enum("exhaustive_small", enum, run),
		h.Rapid("random_lists", h.Opt{Quick: 300000, Thorough: 5000000}, draw, run),
	)
}

var _ = fmt.Sprint
