// C18: Merger output is a loss-free, ordered merge re-linked to the merged header.
package c18

import (
	"bytes"
	"fmt"
	"io"
	"sort"
	"testing"
	"time"

	"github.com/biogo/hts/bam"
	"github.com/biogo/hts/sam"
	"pgregory.net/rapid"

	"verif/internal/bz"
	"verif/internal/h"
)

var refPool = []string{"chrB", "chrA", "chr10", "chr2", "zz"} // pool order = header order; name order differs

type MRec struct {
	Ref, Mate int // index into the pool, -1 none
	Pos       int
	MapQ      byte
	Key       int // name key for queryname order
	PU        bool // placed but unmapped: flag 0x4 with a reference and a position (a read stored at its mate's place)
}

type Input struct {
	Refs  []int // pool indices, in header order
	Tagged []bool // reference carries an M5 tag in this input
	Recs  []MRec
}

type Case struct {
	Order  string // unknown_nil unknown_custom unsorted queryname coordinate
	Inputs []Input
	FailAt int // -1: no fault; otherwise input FailAt%k is truncated inside record FailRec
	FailRec int
	FailCut int // 0: the container is cut inside the member of the record; >0: the container is whole and the data stop this many bytes into the record
	RD     int
	Decoy  bool // pass a less function although the declared order is not "unknown": it must be ignored (documented)
}

var knownName = h.KnownRegion("C18", "coordinate-by-name")

func draw(t *rapid.T) Case {
	c := Case{Order: rapid.SampledFrom([]string{"unknown_nil", "unknown_custom", "unsorted", "queryname", "coordinate", "coordinate"}).Draw(t, "order"), FailAt: -1}
	k := rapid.IntRange(1, 4).Draw(t, "k")
	// reference lists: subsequences of a rotation of the pool (equal, disjoint, overlapping)
	for i := 0; i < k; i++ {
		var in Input
		mask := rapid.IntRange(1, 1<<len(refPool)-1).Draw(t, "refmask")
		if i > 0 && rapid.IntRange(0, 2).Draw(t, "sameRefs") == 0 {
			in.Refs = append([]int(nil), c.Inputs[0].Refs...)
		} else {
			for r := range refPool {
				if mask&(1<<uint(r)) != 0 {
					in.Refs = append(in.Refs, r)
				}
			}
		}
		for range in.Refs {
			in.Tagged = append(in.Tagged, rapid.IntRange(0, 3).Draw(t, "tagged") == 0)
		}
		n := rapid.SampledFrom([]int{0, 0, 1, 2, 3, 5, 8}).Draw(t, "nrec")
		for j := 0; j < n; j++ {
			r := MRec{Ref: -1, Mate: -1, Pos: -1, MapQ: byte(rapid.IntRange(0, 5).Draw(t, "mapq")), Key: rapid.IntRange(0, 6).Draw(t, "key")}
			if rapid.IntRange(0, 5).Draw(t, "placed") != 0 {
				r.Ref = in.Refs[rapid.IntRange(0, len(in.Refs)-1).Draw(t, "ref")]
				// -1: a record that names a reference but has no position (POS 0 in SAM);
				// it sorts in front of the positioned records of that reference
				if r.Pos = rapid.IntRange(-1, 6).Draw(t, "pos") * 100; r.Pos < 0 {
					r.Pos = -1
				}
				r.PU = rapid.IntRange(0, 4).Draw(t, "placedUnmapped") == 0
			}
			if rapid.Bool().Draw(t, "mate") {
				r.Mate = in.Refs[rapid.IntRange(0, len(in.Refs)-1).Draw(t, "materef")]
			}
			in.Recs = append(in.Recs, r)
		}
		c.Inputs = append(c.Inputs, in)
	}
	if rapid.IntRange(0, 4).Draw(t, "fault") == 0 {
		c.FailAt = rapid.IntRange(0, 3).Draw(t, "failInput")
		c.FailRec = rapid.IntRange(0, 7).Draw(t, "failRec")
		c.FailCut = rapid.SampledFrom([]int{0, 0, 0, 1, 2, 3, 4, 5, 35, 36, 37, 1 << 20}).Draw(t, "failCut")
	}
	c.RD = rapid.SampledFrom([]int{1, 2}).Draw(t, "rd")
	c.Decoy = rapid.Bool().Draw(t, "decoyLess")
	return c
}

// mergedOrder models MergeHeaders: the first header's references, then new ones in order of appearance.
func mergedOrder(c Case) []int {
	var m []int
	seen := map[int]bool{}
	for _, in := range c.Inputs {
		for _, r := range in.Refs {
			if !seen[r] {
				seen[r] = true
				m = append(m, r)
			}
		}
	}
	return m
}

func sortOrderOf(c Case) sam.SortOrder {
	switch c.Order {
	case "unsorted":
		return sam.Unsorted
	case "queryname":
		return sam.QueryName
	case "coordinate":
		return sam.Coordinate
	}
	return sam.UnknownOrder
}

func name(r MRec) string { return fmt.Sprintf("q%03d", r.Key) }

func run(c Case, rec *h.Rec) {
	if len(c.Inputs) == 1 {
		// a single header is passed through by MergeHeaders; nothing to merge but the contract still holds
		rec.Class("single_input")
	}
	rank := map[int]int{}
	for i, r := range mergedOrder(c) {
		rank[r] = i
	}
	// does name order differ from merged header order among the references in use?
	mo := mergedOrder(c)
	nameOrderDiffers := false
	for i := 1; i < len(mo); i++ {
		if refPool[mo[i-1]] > refPool[mo[i]] {
			nameOrderDiffers = true
		}
	}
	if c.Order == "coordinate" && nameOrderDiffers && knownName && !h.Replaying() {
		rec.Skip("known:coordinate-by-name")
		return
	}
	key := func(r MRec) [2]int {
		switch c.Order {
		case "coordinate":
			if r.Ref < 0 {
				return [2]int{1 << 30, 0}
			}
			return [2]int{rank[r.Ref], r.Pos}
		case "queryname":
			return [2]int{r.Key, 0}
		case "unknown_custom":
			return [2]int{int(r.MapQ), 0}
		}
		return [2]int{0, 0}
	}
	less := func(a, b [2]int) bool { return a[0] < b[0] || (a[0] == b[0] && a[1] < b[1]) }
	// build the inputs: each sorted in the declared order
	var streams [][]byte
	type id = struct{ in, ord int }
	want := map[id]MRec{}
	total := 0
	for ii := range c.Inputs {
		in := &c.Inputs[ii]
		if c.Order != "unknown_nil" && c.Order != "unsorted" {
			sort.SliceStable(in.Recs, func(a, b int) bool { return less(key(in.Recs[a]), key(in.Recs[b])) })
		}
		var refs []*sam.Reference
		for ri, r := range in.Refs {
			var md5 []byte
			if in.Tagged[ri] {
				md5 = bytes.Repeat([]byte{byte(r + 1)}, 16) // same value in every input that tags it
			}
			ref, err := sam.NewReference(refPool[r], "", "", 100000+r, md5, nil)
			if err != nil {
				rec.Failf("NewReference: %v", err)
				return
			}
			refs = append(refs, ref)
		}
		hd, err := sam.NewHeader(nil, refs)
		if err != nil {
			rec.Failf("NewHeader: %v", err)
			return
		}
		hd.Version = "1.6"
		hd.SortOrder = sortOrderOf(c)
		local := map[int]*sam.Reference{}
		for ri, r := range in.Refs {
			local[r] = refs[ri]
		}
		var buf bytes.Buffer
		w, err := bam.NewWriter(&buf, hd, 1)
		if err != nil {
			rec.Failf("NewWriter: %v", err)
			return
		}
		for oi, r := range in.Recs {
			sr := &sam.Record{Name: name(r), Pos: r.Pos, MatePos: -1, MapQ: r.MapQ, Flags: sam.Paired}
			if r.Ref >= 0 {
				sr.Ref = local[r.Ref]
				sr.Cigar = sam.Cigar{sam.NewCigarOp(sam.CigarMatch, 4)}
				sr.Seq = sam.NewSeq([]byte("ACGT"))
				if r.PU {
					sr.Cigar = nil
					sr.Flags |= sam.Unmapped
				}
			} else {
				sr.Flags |= sam.Unmapped
			}
			if r.Mate >= 0 {
				sr.MateRef = local[r.Mate]
				sr.MatePos = 7
			}
			a1, _ := sam.NewAux(sam.NewTag("XI"), int32(ii))
			a2, _ := sam.NewAux(sam.NewTag("XO"), int32(oi))
			sr.AuxFields = sam.AuxFields{a1, a2}
			if err := w.Write(sr); err != nil {
				rec.Failf("Write: %v", err)
				return
			}
			want[id{ii, oi}] = r
			total++
		}
		if err := w.Close(); err != nil {
			rec.Failf("Close: %v", err)
			return
		}
		streams = append(streams, buf.Bytes())
	}
	// optional fault: truncate one input in the middle of its data
	failing, failRec := -1, -1
	if c.FailAt >= 0 {
		fi := c.FailAt % len(c.Inputs)
		if n := len(c.Inputs[fi].Recs); n > 0 {
			// re-block the input with one BGZF member per record (the header in its own
			// member), then cut the stream inside the member of record FailRec%n: the
			// records before it are readable, that one is not. FailRec%n==0 damages the
			// first record (seen by NewMerger), larger values fail in the middle of the merge.
			k := c.FailRec % n
			if re, cut, ok := reblockAndCut(streams[fi], k, c.FailCut); ok {
				streams[fi] = re[:cut]
				failing = fi
				failRec = k
			}
		}
	}
	var msg string
	var stats struct{ interleaved bool }
	ok := h.Call(30*time.Second, func() {
		msg = mergeAndCheck(c, streams, failing, want, total, key, less, &stats.interleaved)
	})
	if !ok {
		dl, where := h.Deadlocked("hts/")
		rec.Failf("merging did not finish within 30s (deadlock signature %v)\n%s", dl, where)
		return
	}
	if msg != "" {
		rec.Failf("%s [order=%s inputs=%d failing input=%d]", msg, c.Order, len(c.Inputs), failing)
		return
	}
	empty := false
	for _, in := range c.Inputs {
		empty = empty || len(in.Recs) == 0
	}
	rec.Class(c.Order)
	rec.ClassIf(empty, "has_empty_input")
	rec.ClassIf(c.Decoy && c.Order != "unknown_nil" && c.Order != "unknown_custom", "less_given_but_order_declared")
	rec.ClassIf(failing >= 0, "failing_input")
	rec.ClassIf(failRec > 0, "failing_mid_stream")
	rec.ClassIf(failing >= 0 && c.FailCut > 0, "data_stop_inside_a_record_of_a_whole_container")
	rec.ClassIf(failing >= 0 && c.FailCut > 0 && c.FailCut < 4, "data_stop_inside_a_size_field")
	rec.ClassIf(failRec > 0 && len(c.Inputs) == 1, "failing_mid_stream_single_input")
	rec.ClassIf(nameOrderDiffers, "name_order_differs_from_header_order")
	rec.NTIf((len(c.Inputs) >= 2 && stats.interleaved) || failing >= 0)
}

func mergeAndCheck(c Case, streams [][]byte, failing int, want map[struct{ in, ord int }]MRec, total int, key func(MRec) [2]int, less func(a, b [2]int) bool, interleaved *bool) string {
	type id = struct{ in, ord int }
	var readers []*bam.Reader
	for i, s := range streams {
		r, err := bam.NewReader(bytes.NewReader(s), c.RD)
		if err != nil {
			if i == failing {
				return "" // the damaged input is rejected up front: reported, not dropped
			}
			return fmt.Sprintf("NewReader(input %d): %v", i, err)
		}
		defer r.Close()
		readers = append(readers, r)
	}
	var lessFn func(a, b *sam.Record) bool
	if c.Order == "unknown_custom" {
		lessFn = func(a, b *sam.Record) bool { return a.MapQ < b.MapQ }
	} else if c.Decoy && c.Order != "unknown_nil" {
		// "For all sort orders other than sam.Unknown, the less parameter is ignored."
		lessFn = func(a, b *sam.Record) bool { return a.MapQ > b.MapQ || a.MapQ == b.MapQ && a.Name > b.Name }
	}
	m, err := bam.NewMerger(lessFn, readers...)
	if err != nil {
		if failing >= 0 {
			return ""
		}
		return "NewMerger: " + err.Error()
	}
	mh := m.Header()
	owned := map[*sam.Reference]bool{}
	for i, r := range mh.Refs() {
		if r.ID() != i {
			return fmt.Sprintf("merged header reference %d (%s) has id %d", i, r.Name(), r.ID())
		}
		owned[r] = true
	}
	seen := map[id]bool{}
	var prevKey [2]int
	havePrev := false
	lastOrd := map[int]int{}
	lastIn := -1
	gotErr := false
	n := 0
	for {
		r, err := m.Read()
		if err == io.EOF {
			break
		}
		if err != nil {
			if failing < 0 {
				return fmt.Sprintf("Read #%d: %v (no input was damaged)", n, err)
			}
			gotErr = true
			break
		}
		if r == nil {
			return fmt.Sprintf("Read #%d returned (nil, nil)", n)
		}
		n++
		if n > total+3 {
			return fmt.Sprintf("merger returned more than the %d records of its inputs", total)
		}
		ai, ao := r.AuxFields.Get(sam.NewTag("XI")), r.AuxFields.Get(sam.NewTag("XO"))
		if ai == nil || ao == nil {
			return fmt.Sprintf("record %d (%s) lost its tags", n, r.Name)
		}
		ii, oo := int(toInt(ai.Value())), int(toInt(ao.Value()))
		w, ok := want[id{ii, oo}]
		if !ok {
			return fmt.Sprintf("record %d (%s, input %d ordinal %d) was never written", n, r.Name, ii, oo)
		}
		if seen[id{ii, oo}] {
			return fmt.Sprintf("record of input %d ordinal %d returned twice", ii, oo)
		}
		seen[id{ii, oo}] = true
		if r.Name != name(w) || r.Pos != w.Pos || r.MapQ != w.MapQ {
			return fmt.Sprintf("record of input %d ordinal %d changed: %s/%d/%d", ii, oo, r.Name, r.Pos, r.MapQ)
		}
		// references belong to the merged header and keep their names
		if w.Ref >= 0 {
			if r.Ref == nil || !owned[r.Ref] {
				return fmt.Sprintf("record of input %d ordinal %d: Ref %v is not a reference of Merger.Header()", ii, oo, refName(r.Ref))
			}
			if r.Ref.Name() != refPool[w.Ref] {
				return fmt.Sprintf("record of input %d ordinal %d: Ref is %s, it was %s in its source", ii, oo, r.Ref.Name(), refPool[w.Ref])
			}
		} else if r.Ref != nil {
			return fmt.Sprintf("record of input %d ordinal %d: Ref %s, none in the source", ii, oo, r.Ref.Name())
		}
		if w.Mate >= 0 {
			if r.MateRef == nil || !owned[r.MateRef] {
				return fmt.Sprintf("record of input %d ordinal %d: MateRef %v is not a reference of Merger.Header() (it still belongs to the source header)", ii, oo, refName(r.MateRef))
			}
			if r.MateRef.Name() != refPool[w.Mate] {
				return fmt.Sprintf("record of input %d ordinal %d: MateRef is %s, it was %s in its source", ii, oo, r.MateRef.Name(), refPool[w.Mate])
			}
		} else if r.MateRef != nil {
			return fmt.Sprintf("record of input %d ordinal %d: MateRef %s, none in the source", ii, oo, r.MateRef.Name())
		}
		// order
		if lo, ok := lastOrd[ii]; ok && oo <= lo {
			return fmt.Sprintf("records of input %d out of their original order: ordinal %d after %d", ii, oo, lo)
		}
		lastOrd[ii] = oo
		switch c.Order {
		case "unknown_nil", "unsorted":
			if ii < lastIn {
				return fmt.Sprintf("concatenation: record of input %d after a record of input %d", ii, lastIn)
			}
		default:
			k := key(w)
			if havePrev && less(k, prevKey) {
				return fmt.Sprintf("output not sorted (%s): record of input %d ordinal %d with key %v follows key %v", c.Order, ii, oo, k, prevKey)
			}
			prevKey, havePrev = k, true
			if lastIn >= 0 && ii < lastIn {
				*interleaved = true
			}
		}
		if ii != lastIn && lastIn >= 0 {
			*interleaved = *interleaved || c.Order == "coordinate" || c.Order == "queryname" || c.Order == "unknown_custom"
		}
		lastIn = ii
	}
	if failing >= 0 {
		if !gotErr {
			return fmt.Sprintf("input %d ends inside one of its records, yet the merger ended with io.EOF after %d records and never reported an error", failing, n)
		}
		return ""
	}
	if n != total {
		var missing []string
		for k := range want {
			if !seen[k] {
				missing = append(missing, fmt.Sprintf("input %d ordinal %d", k.in, k.ord))
			}
		}
		sort.Strings(missing)
		return fmt.Sprintf("merger returned %d of %d records; missing: %v", n, total, missing)
	}
	if _, err := m.Read(); err != io.EOF {
		return fmt.Sprintf("Read after io.EOF returned %v", err)
	}
	return ""
}

func refName(r *sam.Reference) string {
	if r == nil {
		return "<nil>"
	}
	return fmt.Sprintf("%s(id %d)", r.Name(), r.ID())
}

func toInt(v interface{}) int64 {
	switch x := v.(type) {
	case int8:
		return int64(x)
	case uint8:
		return int64(x)
	case int16:
		return int64(x)
	case uint16:
		return int64(x)
	case int32:
		return int64(x)
	case uint32:
		return int64(x)
	}
	return -1
}

func TestProp(t *testing.T) {
	h.Main(t, "C18", h.Rapid("merge", h.Opt{Quick: 6000, Thorough: 150000, Isolate: true}, draw, run))
}

// reblockAndCut rewrites a BAM stream with one BGZF member per record and
// returns it with an offset inside the member holding record k (its trailer).
// With inRec > 0 the container stays whole (EOF marker included) and the data
// stop inRec bytes into record k instead (at most one byte short of its end).
func reblockAndCut(stream []byte, k, inRec int) ([]byte, int, bool) {
	flat, err := bz.GunzipAll(stream)
	if err != nil || len(flat) < 12 {
		return nil, 0, false
	}
	le := func(o int) int { return int(uint32(flat[o]) | uint32(flat[o+1])<<8 | uint32(flat[o+2])<<16 | uint32(flat[o+3])<<24) }
	o := 8 + le(4)
	nref := le(o)
	o += 4
	for i := 0; i < nref; i++ {
		o += 4 + le(o) + 4
	}
	payloads := [][]byte{flat[:o]}
	for o < len(flat) {
		n := 4 + le(o)
		payloads = append(payloads, flat[o:o+n])
		o += n
	}
	if k+1 >= len(payloads) {
		return nil, 0, false
	}
	if inRec > 0 {
		if inRec >= len(payloads[k+1]) {
			inRec = len(payloads[k+1]) - 1
		}
		payloads = append(payloads[:k+1:k+1], payloads[k+1][:inRec])
		f := bz.BuildFile(payloads, 1, true)
		return f.Bytes, len(f.Bytes), true
	}
	f := bz.BuildFile(payloads, 1, true)
	m := f.Members[k+1]
	return f.Bytes, int(m.Base) + m.Size - 6, true
}
