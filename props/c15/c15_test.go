// C15: index serialisation round trip keeps answers and statistics (BAI, CSI, tabix).
package c15

import (
	"bytes"
	"encoding/binary"
	"fmt"
	"reflect"
	"sort"
	"testing"

	"github.com/biogo/hts/bgzf"
	"github.com/biogo/hts/bgzf/index"
	"pgregory.net/rapid"

	"verif/internal/h"
	"verif/internal/ix"
)

type TbxHdr struct {
	Format    byte
	ZeroBased bool
	NameCol   int32
	BegCol    int32
	EndCol    int32
	Meta      int32
	Skip      int32
}

type Case struct {
	Kind    string // bai csi1 csi2 tabix
	S       ix.Spec
	Aux     h.Hex // CSI auxiliary bytes
	AuxLen  int   // >0: the auxiliary bytes are Aux (or 0xa5 if empty) repeated up to this length
	Tbx     TbxHdr
	Queries int
	Frag    []int // the written index is read back through a reader that returns at most these many bytes per call (cycled)
}

func (c Case) aux() []byte {
	if c.AuxLen <= 0 {
		return c.Aux
	}
	pat := []byte(c.Aux)
	if len(pat) == 0 {
		pat = []byte{0xa5}
	}
	out := make([]byte, c.AuxLen)
	for i := range out {
		out[i] = pat[i%len(pat)]
	}
	return out
}

func draw(t *rapid.T) Case {
	k := rapid.SampledFrom([]string{"bai", "bai", "csi1", "csi2", "tabix"}).Draw(t, "kind")
	c := Case{Kind: k, S: ix.SpecGen(k == "csi1" || k == "csi2", 10).Draw(t, "spec")}
	if rapid.IntRange(0, 9).Draw(t, "onlyUnplaced") == 0 {
		c.S.Recs = []ix.IRec{{Ref: -1, Start: -1, End: 0, Step: 10}, {Ref: -1, Start: -1, End: 0, Step: 10}}
	}
	if k == "csi1" || k == "csi2" {
		c.Aux = rapid.SliceOfN(rapid.Byte(), 0, 12).Draw(t, "aux")
		if rapid.IntRange(0, 7).Draw(t, "longaux") == 0 {
			c.AuxLen = rapid.SampledFrom([]int{4079, 4080, 4081, 4096, 5000, 70000}).Draw(t, "auxlen")
		}
	}
	if rapid.IntRange(0, 2).Draw(t, "frag") == 0 {
		c.Frag = rapid.SliceOfN(rapid.SampledFrom([]int{1, 2, 3, 7, 16, 100, 4096}), 1, 4).Draw(t, "fragv")
	}
	if k == "tabix" {
		c.Tbx = TbxHdr{
			Format:    byte(rapid.SampledFrom([]int{0, 1, 2}).Draw(t, "format")),
			ZeroBased: rapid.Bool().Draw(t, "zero"),
			NameCol:   int32(rapid.IntRange(1, 9).Draw(t, "ncol")),
			BegCol:    int32(rapid.IntRange(1, 9).Draw(t, "bcol")),
			EndCol:    int32(rapid.IntRange(0, 9).Draw(t, "ecol")),
			Meta:      int32(rapid.SampledFrom([]int{'#', '@', 0, 'x', 0xe9, 0x100, 0x2192, 0x1f9ec, 0x7fffffff, -1}).Draw(t, "meta")),
			Skip:      int32(rapid.IntRange(0, 5).Draw(t, "skip")),
		}
	}
	return c
}

func build(c Case, layout []bgzf.Chunk) (ix.Querier, error) {
	switch c.Kind {
	case "bai":
		return ix.BuildBAI(c.S, layout)
	case "csi1":
		return ix.BuildCSI(c.S, layout, 1, c.aux())
	case "csi2":
		return ix.BuildCSI(c.S, layout, 2, c.aux())
	}
	t, err := ix.BuildTBX(c.S, layout)
	if err != nil {
		return nil, err
	}
	t.Idx.Format, t.Idx.ZeroBased = c.Tbx.Format, c.Tbx.ZeroBased
	t.Idx.NameColumn, t.Idx.BeginColumn, t.Idx.EndColumn = c.Tbx.NameCol, c.Tbx.BegCol, c.Tbx.EndCol
	t.Idx.MetaChar, t.Idx.Skip = rune(c.Tbx.Meta), c.Tbx.Skip
	return t, nil
}

func reread(q ix.Querier, data []byte) (ix.Querier, error) {
	switch x := q.(type) {
	case *ix.BAI:
		return ix.ReadBAI(data, x.Refs)
	case *ix.CSI:
		return ix.ReadCSI(data)
	case *ix.TBX:
		return ix.ReadTBX(data, x.Names)
	}
	return nil, fmt.Errorf("unknown kind")
}

func vo(o bgzf.Offset) uint64 { return uint64(o.File)<<16 | uint64(o.Block) }

// truth is the ground truth statistics of one reference.
type truth struct {
	mapped, unmapped uint64
	begin, end       bgzf.Offset
	any              bool
}

func groundTruth(s ix.Spec, layout []bgzf.Chunk) (refs []truth, unplaced uint64) {
	refs = make([]truth, s.NRefs)
	for i, r := range s.Recs {
		if r.Ref < 0 {
			unplaced++
			continue
		}
		t := &refs[r.Ref]
		if !t.any {
			t.begin = layout[i].Begin
		}
		t.any = true
		t.end = layout[i].End
		if r.Mapped {
			t.mapped++
		} else {
			t.unmapped++
		}
	}
	return
}

// statsOf collects what the accessors report, keyed by the harness' reference index.
func statsOf(c Case, q ix.Querier) (n int, per map[int]index.ReferenceStats, un uint64, unOK bool, msg string) {
	per = map[int]index.ReferenceStats{}
	n = q.NumRefs()
	un, unOK = q.Unmapped()
	for id := 0; id < n; id++ {
		var st index.ReferenceStats
		var ok bool
		st, ok = q.ReferenceStats(id)
		if !ok {
			continue
		}
		ref := id
		if t, isT := q.(*ix.TBX); isT {
			names := t.Idx.Names()
			if id >= len(names) {
				return n, per, un, unOK, fmt.Sprintf("tabix has %d references but %d names", n, len(names))
			}
			ref = -1
			for i := 0; i < c.S.NRefs; i++ {
				if ix.RefName(i) == names[id] {
					ref = i
				}
			}
			if ref < 0 {
				return n, per, un, unOK, fmt.Sprintf("tabix name %q was never added", names[id])
			}
		}
		per[ref] = st
	}
	return
}

func checkStats(c Case, q ix.Querier, layout []bgzf.Chunk, stage string, rec *h.Rec) bool {
	tr, unplaced := groundTruth(c.S, layout)
	var n int
	var per map[int]index.ReferenceStats
	var un uint64
	var unOK bool
	var msg string
	h.Safe(rec, c.Kind+" statistics accessors "+stage, func() { n, per, un, unOK, msg = statsOf(c, q) })
	if rec.Failed() {
		return false
	}
	if msg != "" {
		rec.Failf("%s %s: %s", c.Kind, stage, msg)
		return false
	}
	wantRefs := 0
	if c.Kind == "tabix" {
		for _, t := range tr {
			if t.any {
				wantRefs++
			}
		}
	} else {
		for i, t := range tr {
			if t.any {
				wantRefs = i + 1
			}
		}
	}
	if n != wantRefs {
		rec.Failf("%s %s: NumRefs()=%d, records were added for %d reference(s)", c.Kind, stage, n, wantRefs)
		return false
	}
	for i, t := range tr {
		st, ok := per[i]
		if ok != t.any {
			rec.Failf("%s %s: ReferenceStats for reference %d valid=%v, records added=%v", c.Kind, stage, i, ok, t.any)
			return false
		}
		if !ok {
			continue
		}
		if st.Mapped != t.mapped || st.Unmapped != t.unmapped || st.Chunk.Begin != t.begin || st.Chunk.End != t.end {
			rec.Failf("%s %s: ReferenceStats(reference %d) = %+v, the records added have mapped=%d unmapped=%d span %+v..%+v", c.Kind, stage, i, st, t.mapped, t.unmapped, t.begin, t.end)
			return false
		}
	}
	if len(c.S.Recs) > 0 {
		if !unOK || un != unplaced {
			rec.Failf("%s %s: Unmapped()=(%d,%v), %d unplaced records were added", c.Kind, stage, un, unOK, unplaced)
			return false
		}
	}
	return true
}

// ---- independent structure parsers (SAM spec 5.2, tabix and CSI specifications) ----

type pbin struct {
	chunks [][2]uint64
	left   uint64
}
type pref struct {
	bins      map[uint32]pbin
	order     []uint32
	pseudo    *[4]uint64 // ref_beg, ref_end, n_mapped, n_unmapped
	intervals []uint64
}
type parsed struct {
	refs    []pref
	noCoor  *uint64
	tbx     *TbxHdr
	names   []string
	csiAux  []byte
	version byte
	shift   int32
	depth   int32
}

type rd struct {
	b   []byte
	pos int
	err error
}

func (r *rd) take(n int) []byte {
	if r.err != nil {
		return make([]byte, n)
	}
	if n < 0 || r.pos+n > len(r.b) {
		r.err = fmt.Errorf("truncated at %d (need %d of %d)", r.pos, n, len(r.b))
		return make([]byte, n&0xffff)
	}
	p := r.b[r.pos : r.pos+n]
	r.pos += n
	return p
}
func (r *rd) u32() uint32 { return binary.LittleEndian.Uint32(r.take(4)) }
func (r *rd) i32() int32  { return int32(r.u32()) }
func (r *rd) u64() uint64 { return binary.LittleEndian.Uint64(r.take(8)) }

func parseBody(r *rd, nref int32, pseudoBin uint32, csiVersion byte, withIntervals bool) []pref {
	var out []pref
	for i := int32(0); i < nref && r.err == nil; i++ {
		p := pref{bins: map[uint32]pbin{}}
		nbin := r.i32()
		for b := int32(0); b < nbin && r.err == nil; b++ {
			bn := r.u32()
			var left uint64
			if csiVersion != 0 {
				left = r.u64()
				if csiVersion == 2 {
					r.u64() // per-bin record count (library extension)
				}
			}
			nch := r.i32()
			if bn == pseudoBin {
				if nch != 2 {
					r.err = fmt.Errorf("pseudo-bin with %d chunks", nch)
					break
				}
				var st [4]uint64
				for k := range st {
					st[k] = r.u64()
				}
				p.pseudo = &st
				continue
			}
			var pb pbin
			pb.left = left
			for k := int32(0); k < nch && r.err == nil; k++ {
				pb.chunks = append(pb.chunks, [2]uint64{r.u64(), r.u64()})
			}
			if _, dup := p.bins[bn]; dup {
				r.err = fmt.Errorf("bin %d listed twice", bn)
			}
			p.bins[bn] = pb
			p.order = append(p.order, bn)
		}
		if withIntervals {
			n := r.i32()
			for k := int32(0); k < n && r.err == nil; k++ {
				p.intervals = append(p.intervals, r.u64())
			}
		}
		out = append(out, p)
	}
	return out
}

func parseIndex(kind string, b []byte) (*parsed, error) {
	r := &rd{b: b}
	p := &parsed{}
	switch kind {
	case "bai":
		if string(r.take(4)) != "BAI\x01" {
			return nil, fmt.Errorf("bad BAI magic")
		}
		p.refs = parseBody(r, r.i32(), 37450, 0, true)
	case "tabix":
		if string(r.take(4)) != "TBI\x01" {
			return nil, fmt.Errorf("bad TBI magic")
		}
		nref := r.i32()
		format := r.i32()
		th := &TbxHdr{Format: byte(format), ZeroBased: format&0x10000 != 0, NameCol: r.i32(), BegCol: r.i32(), EndCol: r.i32(), Meta: r.i32(), Skip: r.i32()}
		p.tbx = th
		lnm := r.i32()
		names := r.take(int(lnm))
		if r.err == nil && lnm > 0 {
			if names[len(names)-1] != 0 {
				return nil, fmt.Errorf("names not NUL terminated")
			}
			for _, n := range bytes.Split(names[:len(names)-1], []byte{0}) {
				p.names = append(p.names, string(n))
			}
		}
		p.refs = parseBody(r, nref, 37450, 0, true)
	default:
		m := r.take(4)
		if string(m[:3]) != "CSI" {
			return nil, fmt.Errorf("bad CSI magic")
		}
		p.version = m[3]
		p.shift, p.depth = r.i32(), r.i32()
		laux := r.i32()
		p.csiAux = append([]byte(nil), r.take(int(laux))...)
		pseudo := uint32(((1<<(uint(p.depth)*3+3))-1)/7 + 1)
		p.refs = parseBody(r, r.i32(), pseudo, p.version, false)
	}
	if r.err != nil {
		return nil, r.err
	}
	switch len(b) - r.pos {
	case 0:
	case 8:
		v := r.u64()
		p.noCoor = &v
	default:
		return nil, fmt.Errorf("%d bytes after the last reference (want 0 or 8)", len(b)-r.pos)
	}
	return p, nil
}

func specBAIBin(beg, end int) uint32 {
	end--
	switch {
	case beg>>14 == end>>14:
		return uint32(4681 + beg>>14)
	case beg>>17 == end>>17:
		return uint32(585 + beg>>17)
	case beg>>20 == end>>20:
		return uint32(73 + beg>>20)
	case beg>>23 == end>>23:
		return uint32(9 + beg>>23)
	case beg>>26 == end>>26:
		return uint32(1 + beg>>26)
	}
	return 0
}

func specCSIBin(beg, end int64, minShift, depth int) uint32 {
	l, s := depth, minShift
	t := int64((1<<(uint(depth)*3) - 1) / 7)
	end--
	for l > 0 {
		if beg>>uint(s) == end>>uint(s) {
			return uint32(t + beg>>uint(s))
		}
		l--
		s += 3
		t -= 1 << (uint(l) * 3)
	}
	return 0
}

// checkStructure verifies the written bytes with the independent parser.
func checkStructure(c Case, data []byte, layout []bgzf.Chunk, rec *h.Rec) bool {
	kind := c.Kind
	if kind == "csi1" || kind == "csi2" {
		kind = "csi"
	}
	p, err := parseIndex(kind, data)
	if err != nil {
		rec.Failf("%s: the written index does not parse as the format specification describes: %v", c.Kind, err)
		return false
	}
	tr, unplaced := groundTruth(c.S, layout)
	// map harness reference index -> position in the file
	filePos := map[int]int{}
	switch c.Kind {
	case "tabix":
		for i := 0; i < c.S.NRefs; i++ {
			for k, n := range p.names {
				if n == ix.RefName(i) {
					filePos[i] = k
				}
			}
		}
		if len(p.names) != len(p.refs) {
			rec.Failf("tabix: %d names for %d references in the file", len(p.names), len(p.refs))
			return false
		}
		want := c.Tbx
		if *p.tbx != want {
			rec.Failf("tabix header in the file %+v, configured %+v", *p.tbx, want)
			return false
		}
	default:
		for i := range p.refs {
			filePos[i] = i
		}
	}
	if c.Kind == "csi1" || c.Kind == "csi2" {
		wantV := byte(1)
		if c.Kind == "csi2" {
			wantV = 2
		}
		if p.version != wantV || int(p.shift) != c.S.MinShift || int(p.depth) != c.S.Depth || !bytes.Equal(p.csiAux, c.aux()) {
			rec.Failf("CSI header: version %d min_shift %d depth %d aux % x, configured %d/%d/%d/% x", p.version, p.shift, p.depth, clip(p.csiAux), wantV, c.S.MinShift, c.S.Depth, clip(c.aux()))
			return false
		}
	}
	for ref, t := range tr {
		k, present := filePos[ref]
		if !t.any {
			if present && k < len(p.refs) && (len(p.refs[k].bins) != 0 || p.refs[k].pseudo != nil) {
				rec.Failf("%s: reference %d received no records but the file lists bins for it", c.Kind, ref)
				return false
			}
			continue
		}
		if !present || k >= len(p.refs) {
			rec.Failf("%s: reference %d has records but is missing from the file", c.Kind, ref)
			return false
		}
		pr := p.refs[k]
		wantBins := map[uint32]bool{}
		for i, r := range c.S.Recs {
			if r.Ref != ref {
				continue
			}
			var bn uint32
			if kind == "csi" {
				bn = specCSIBin(int64(r.Start), int64(r.End), c.S.MinShift, c.S.Depth)
			} else {
				bn = specBAIBin(r.Start, r.End)
			}
			wantBins[bn] = true
			pb, ok := pr.bins[bn]
			if !ok {
				rec.Failf("%s: record %d = %+v belongs to bin %d (specification reg2bin) which the file does not list for reference %d (bins %v)", c.Kind, i, r, bn, ref, pr.order)
				return false
			}
			covered := false
			for _, ch := range pb.chunks {
				if ch[0] <= vo(layout[i].Begin) && vo(layout[i].End) <= ch[1] {
					covered = true
				}
			}
			if !covered {
				rec.Failf("%s: record %d = %+v at %+v is not inside any chunk of its bin %d: %v", c.Kind, i, r, layout[i], bn, pb.chunks)
				return false
			}
			if kind == "csi" && pb.left > vo(layout[i].Begin) {
				rec.Failf("%s: bin %d loffset %d is beyond record %d at %d", c.Kind, bn, pb.left, i, vo(layout[i].Begin))
				return false
			}
			if kind != "csi" {
				for tile := r.Start >> 14; tile <= (r.End-1)>>14; tile++ {
					if tile >= len(pr.intervals) {
						rec.Failf("%s: record %d = %+v overlaps 16 KiB tile %d but the linear index of reference %d has %d entries", c.Kind, i, r, tile, ref, len(pr.intervals))
						return false
					}
					if pr.intervals[tile] > vo(layout[i].Begin) {
						rec.Failf("%s: linear index entry %d of reference %d is %d, beyond record %d which overlaps that tile and starts at %d", c.Kind, tile, ref, pr.intervals[tile], i, vo(layout[i].Begin))
						return false
					}
				}
			}
		}
		for bn := range pr.bins {
			if !wantBins[bn] {
				rec.Failf("%s: the file lists bin %d for reference %d, no record belongs there", c.Kind, bn, ref)
				return false
			}
		}
		if !sort.SliceIsSorted(pr.order, func(a, b int) bool { return pr.order[a] < pr.order[b] }) {
			rec.Class("bins_not_in_ascending_order_in_file")
		}
		if pr.pseudo == nil {
			rec.Failf("%s: reference %d has records but no statistics pseudo-bin", c.Kind, ref)
			return false
		}
		want := [4]uint64{vo(t.begin), vo(t.end), t.mapped, t.unmapped}
		if *pr.pseudo != want {
			rec.Failf("%s: pseudo-bin of reference %d = %v, the records give %v", c.Kind, ref, *pr.pseudo, want)
			return false
		}
	}
	if len(c.S.Recs) > 0 {
		if p.noCoor == nil || *p.noCoor != unplaced {
			rec.Failf("%s: trailing unplaced count %v, %d unplaced records were added", c.Kind, p.noCoor, unplaced)
			return false
		}
	}
	return true
}

func answers(q ix.Querier, qs []ix.Query, rec *h.Rec, what string) [][]bgzf.Chunk {
	out := make([][]bgzf.Chunk, len(qs))
	for i, qu := range qs {
		h.Safe(rec, what, func() {
			ans, err := q.Chunks(qu)
			if err != nil {
				ans = nil
			}
			out[i] = ans
		})
		if rec.Failed() {
			return nil
		}
	}
	return out
}

func run(c Case, rec *h.Rec) {
	ix.Fragment = c.Frag
	defer func() { ix.Fragment = nil }()
	rec.ClassIf(len(c.Frag) > 0, "read_back_in_fragments")
	rec.ClassIf(c.AuxLen > 0, "long_csi_aux")
	layout := c.S.Layout()
	var q ix.Querier
	var err error
	h.Safe(rec, c.Kind+" Add", func() { q, err = build(c, layout) })
	if rec.Failed() {
		return
	}
	if err != nil {
		rec.Skip("Add failed (C04's business): " + err.Error())
		return
	}
	if !checkStats(c, q, layout, "as built", rec) {
		return
	}
	w1, err := q.Write()
	if err != nil {
		rec.Failf("%s: writing: %v", c.Kind, err)
		return
	}
	if !checkStructure(c, w1, layout, rec) {
		return
	}
	hasPlaced := false
	for _, r := range c.S.Recs {
		hasPlaced = hasPlaced || r.Ref >= 0
	}
	var q2 ix.Querier
	h.Safe(rec, c.Kind+" read", func() { q2, err = reread(q, w1) })
	if rec.Failed() {
		return
	}
	rec.ClassIf(!hasPlaced, "index_without_references")
	if err != nil {
		rec.Failf("%s: reading the written index (holds placed records: %v): %v", c.Kind, hasPlaced, err)
		return
	}
	w2, err := q2.Write()
	if err != nil || !bytes.Equal(w1, w2) {
		rec.Failf("%s: write(read(write(idx))) differs from write(idx) (err %v, lengths %d and %d, first difference at %d)", c.Kind, err, len(w1), len(w2), firstDiff(w1, w2))
		return
	}
	if !checkStats(c, q2, layout, "after write/read", rec) {
		return
	}
	qs := c.S.Queries(40)
	a1 := answers(q, qs, rec, "Chunks on the built index")
	a2 := answers(q2, qs, rec, "Chunks on the re-read index")
	if rec.Failed() {
		return
	}
	for i := range qs {
		if !reflect.DeepEqual(a1[i], a2[i]) && !(len(a1[i]) == 0 && len(a2[i]) == 0) {
			rec.Failf("%s: query %+v answers %v on the built index and %v after write/read", c.Kind, qs[i], a1[i], a2[i])
			return
		}
	}
	emptyRef, nbins := false, 0
	tr, _ := groundTruth(c.S, layout)
	nrefsWith := 0
	for _, t := range tr {
		if !t.any {
			emptyRef = true
		} else {
			nrefsWith++
		}
	}
	seenBins := map[string]bool{}
	for _, r := range c.S.Recs {
		if r.Ref >= 0 {
			seenBins[fmt.Sprint(r.Ref, specBAIBin(r.Start, r.End))] = true
		}
	}
	nbins = len(seenBins)
	rec.Class(c.Kind)
	rec.ClassIf(emptyRef, "reference_without_records")
	rec.ClassIf(!hasPlaced, "only_unplaced")
	rec.NTIf(c.S.NRefs >= 2 && nrefsWith >= 1 && nbins >= 3)
}

func firstDiff(a, b []byte) int {
	for i := range a {
		if i >= len(b) || a[i] != b[i] {
			return i
		}
	}
	return len(a)
}

// ---- indexes in shapes Add cannot produce, written by the harness' encoder ----

type FCase struct {
	Kind      string // bai tabix csi1 csi2
	S         ix.Spec
	NoPseudo  bool
	NoTrailer bool
	Shuffle   bool
}

func drawF(t *rapid.T) FCase {
	k := rapid.SampledFrom([]string{"bai", "tabix", "csi1", "csi2"}).Draw(t, "kind")
	return FCase{Kind: k, S: ix.SpecGen(k == "csi1" || k == "csi2", 8).Draw(t, "spec"),
		NoPseudo: rapid.Bool().Draw(t, "nopseudo"), NoTrailer: rapid.Bool().Draw(t, "notrailer"), Shuffle: rapid.Bool().Draw(t, "shuffle")}
}

func le32(b []byte, v uint32) []byte { return append(b, byte(v), byte(v>>8), byte(v>>16), byte(v>>24)) }
func le64(b []byte, v uint64) []byte {
	b = le32(b, uint32(v))
	return le32(b, uint32(v>>32))
}

// encodeForeign writes an index for the records with the harness' own encoder.
func encodeForeign(c FCase, layout []bgzf.Chunk) []byte {
	csiV := byte(0)
	var b []byte
	maxRef := -1
	for _, r := range c.S.Recs {
		if r.Ref > maxRef {
			maxRef = r.Ref
		}
	}
	nref := maxRef + 1
	pseudo := uint32(37450)
	switch c.Kind {
	case "bai":
		b = append(b, "BAI\x01"...)
		b = le32(b, uint32(nref))
	case "tabix":
		b = append(b, "TBI\x01"...)
		b = le32(b, uint32(nref))
		b = le32(b, 2)
		b = le32(b, 1)
		b = le32(b, 2)
		b = le32(b, 0)
		b = le32(b, '#')
		b = le32(b, 0)
		var names []byte
		for i := 0; i < nref; i++ {
			names = append(names, ix.RefName(i)...)
			names = append(names, 0)
		}
		b = le32(b, uint32(len(names)))
		b = append(b, names...)
	default:
		csiV = 1
		if c.Kind == "csi2" {
			csiV = 2
		}
		b = append(b, 'C', 'S', 'I', csiV)
		b = le32(b, uint32(c.S.MinShift))
		b = le32(b, uint32(c.S.Depth))
		b = le32(b, 0)
		b = le32(b, uint32(nref))
		pseudo = uint32(((1<<(uint(c.S.Depth)*3+3))-1)/7 + 1)
	}
	tr, unplaced := groundTruth(c.S, layout)
	for ref := 0; ref < nref; ref++ {
		type ent struct {
			bin    uint32
			chunks [][2]uint64
			n      uint64
		}
		var ents []ent
		find := func(bn uint32) *ent {
			for i := range ents {
				if ents[i].bin == bn {
					return &ents[i]
				}
			}
			ents = append(ents, ent{bin: bn})
			return &ents[len(ents)-1]
		}
		var intervals []uint64
		var isSet []bool
		for i, r := range c.S.Recs {
			if r.Ref != ref {
				continue
			}
			var bn uint32
			if csiV != 0 {
				bn = specCSIBin(int64(r.Start), int64(r.End), c.S.MinShift, c.S.Depth)
			} else {
				bn = specBAIBin(r.Start, r.End)
			}
			e := find(bn)
			e.chunks = append(e.chunks, [2]uint64{vo(layout[i].Begin), vo(layout[i].End)})
			e.n++
			if csiV == 0 {
				for tile := r.Start >> 14; tile <= (r.End-1)>>14; tile++ {
					for len(intervals) <= tile {
						intervals = append(intervals, 0)
						isSet = append(isSet, false)
					}
					if !isSet[tile] { // offset zero is a real position: a flag, not the value, says "unset"
						intervals[tile] = vo(layout[i].Begin)
						isSet[tile] = true
					}
				}
			}
		}
		// back-fill empty tiles as htslib does
		for i := len(intervals) - 2; i >= 0; i-- {
			if !isSet[i] {
				intervals[i] = intervals[i+1]
			}
		}
		if c.Shuffle {
			for i, j := 0, len(ents)-1; i < j; i, j = i+1, j-1 {
				ents[i], ents[j] = ents[j], ents[i]
			}
			for k := range ents {
				ch := ents[k].chunks
				for i, j := 0, len(ch)-1; i < j; i, j = i+1, j-1 {
					ch[i], ch[j] = ch[j], ch[i]
				}
			}
		}
		nb := len(ents)
		withPseudo := tr[ref].any && !c.NoPseudo
		if withPseudo {
			nb++
		}
		b = le32(b, uint32(nb))
		writePseudo := func() {
			b = le32(b, pseudo)
			if csiV != 0 {
				b = le64(b, 0)
				if csiV == 2 {
					b = le64(b, 0)
				}
			}
			b = le32(b, 2)
			b = le64(b, vo(tr[ref].begin))
			b = le64(b, vo(tr[ref].end))
			b = le64(b, tr[ref].mapped)
			b = le64(b, tr[ref].unmapped)
		}
		if withPseudo && c.Shuffle {
			writePseudo() // pseudo-bin first
		}
		for _, e := range ents {
			b = le32(b, e.bin)
			if csiV != 0 {
				min := e.chunks[0][0]
				for _, ch := range e.chunks {
					if ch[0] < min {
						min = ch[0]
					}
				}
				b = le64(b, min)
				if csiV == 2 {
					b = le64(b, e.n)
				}
			}
			b = le32(b, uint32(len(e.chunks)))
			for _, ch := range e.chunks {
				b = le64(b, ch[0])
				b = le64(b, ch[1])
			}
		}
		if withPseudo && !c.Shuffle {
			writePseudo()
		}
		if csiV == 0 {
			b = le32(b, uint32(len(intervals)))
			for _, v := range intervals {
				b = le64(b, v)
			}
		}
	}
	if !c.NoTrailer {
		b = le64(b, unplaced)
	}
	return b
}

func runF(c FCase, rec *h.Rec) {
	layout := c.S.Layout()
	hasPlaced := false
	for _, r := range c.S.Recs {
		hasPlaced = hasPlaced || r.Ref >= 0
	}
	if !hasPlaced {
		rec.Skip("no placed records")
		return
	}
	data := encodeForeign(c, layout)
	hd, _ := ix.Header(c.S.NRefs)
	var names []string
	for i := 0; i < c.S.NRefs; i++ {
		names = append(names, ix.RefName(i))
	}
	read := func(b []byte) (ix.Querier, error) {
		switch c.Kind {
		case "bai":
			return ix.ReadBAI(b, hd.Refs())
		case "tabix":
			return ix.ReadTBX(b, names)
		}
		return ix.ReadCSI(b)
	}
	var q1 ix.Querier
	var err error
	h.Safe(rec, c.Kind+" read of a specification-conformant index", func() { q1, err = read(data) })
	if rec.Failed() {
		return
	}
	if err != nil {
		rec.Failf("%s: a well-formed index (pseudo-bin absent=%v, trailer absent=%v, reversed bins=%v) is rejected: %v", c.Kind, c.NoPseudo, c.NoTrailer, c.Shuffle, err)
		return
	}
	// completeness of the index as read
	qs := c.S.Queries(40)
	for _, qu := range qs {
		var ans []bgzf.Chunk
		h.Safe(rec, "Chunks", func() { ans, _ = q1.Chunks(qu) })
		if rec.Failed() {
			return
		}
		if i := c.S.Missing(qu, layout, ans); i >= 0 {
			rec.Failf("%s read from bytes: Chunks(%+v)=%v does not cover record %d = %+v at %+v", c.Kind, qu, ans, i, c.S.Recs[i], layout[i])
			return
		}
	}
	w1, err := q1.Write()
	if err != nil {
		rec.Failf("%s: writing a previously read index: %v", c.Kind, err)
		return
	}
	q2, err := read(w1)
	if err != nil {
		rec.Failf("%s: reading back a written, previously read index: %v", c.Kind, err)
		return
	}
	w2, err := q2.Write()
	if err != nil || !bytes.Equal(w1, w2) {
		rec.Failf("%s: a previously read index does not write to stable bytes (err %v, first difference at %d)", c.Kind, err, firstDiff(w1, w2))
		return
	}
	a1 := answers(q1, qs, rec, "Chunks")
	a2 := answers(q2, qs, rec, "Chunks")
	if rec.Failed() {
		return
	}
	for i := range qs {
		if !reflect.DeepEqual(a1[i], a2[i]) && !(len(a1[i]) == 0 && len(a2[i]) == 0) {
			rec.Failf("%s: query %+v answers %v on the index as read and %v after write/read", c.Kind, qs[i], a1[i], a2[i])
			return
		}
	}
	// statistics survive; absent pseudo-bin / trailer are reported as not valid
	tr, unplaced := groundTruth(c.S, layout)
	for _, q := range []ix.Querier{q1, q2} {
		un, ok := q.Unmapped()
		if ok == c.NoTrailer || (ok && un != unplaced) {
			rec.Failf("%s: Unmapped()=(%d,%v) for an index whose trailer absent=%v (true count %d)", c.Kind, un, ok, c.NoTrailer, unplaced)
			return
		}
		for id := 0; id < q.NumRefs(); id++ {
			st, ok := q.ReferenceStats(id)
			want := tr[id].any && !c.NoPseudo
			if ok != want {
				rec.Failf("%s: ReferenceStats(%d) valid=%v, pseudo-bin present=%v", c.Kind, id, ok, want)
				return
			}
			if ok && (st.Mapped != tr[id].mapped || st.Unmapped != tr[id].unmapped || st.Chunk.Begin != tr[id].begin || st.Chunk.End != tr[id].end) {
				rec.Failf("%s: ReferenceStats(%d)=%+v, the pseudo-bin held mapped=%d unmapped=%d %+v..%+v", c.Kind, id, st, tr[id].mapped, tr[id].unmapped, tr[id].begin, tr[id].end)
				return
			}
		}
	}
	rec.Class(c.Kind)
	rec.ClassIf(c.NoPseudo, "no_pseudo_bin")
	rec.ClassIf(c.NoTrailer, "no_trailing_count")
	rec.ClassIf(c.Shuffle, "bins_and_chunks_reversed")
	rec.NTIf(c.NoPseudo || c.NoTrailer || c.Shuffle)
}

func TestProp(t *testing.T) {
	h.Main(t, "C15",
		h.Rapid("built_roundtrip_stats", h.Opt{Quick: 16000, Thorough: 500000}, draw, run),
		h.Rapid("foreign_shapes", h.Opt{Quick: 8000, Thorough: 300000}, drawF, runF),
	)
}

func clip(b []byte) []byte {
	if len(b) > 24 {
		return b[:24]
	}
	return b
}
