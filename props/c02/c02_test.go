// C02: virtual offsets address the flat stream: Seek/Read/ReadByte/LastChunk/BlockLen obey a simple model.
package c02

import (
	"sync/atomic"
	"testing"
	"time"

	"github.com/biogo/hts/bgzf"
	"pgregory.net/rapid"

	"verif/internal/bz"
	"verif/internal/h"
)

type Case struct {
	F       bz.FSpec
	RD      int
	Ops     []bz.ROp
	MaxRead int   // underlying reader delivers at most this many bytes per call (0 = unlimited)
	Delays  []int // microseconds per underlying call
}

func draw(t *rapid.T) Case {
	c := Case{F: bz.FSpecGen(8).Draw(t, "file")}
	c.RD = rapid.SampledFrom([]int{0, 1, 1, 2, 3, 4, 8}).Draw(t, "rd")
	c.Ops = rapid.SliceOfN(bz.ROpGen(), 1, 40).Draw(t, "ops")
	if rapid.IntRange(0, 3).Draw(t, "short") == 0 {
		c.MaxRead = rapid.SampledFrom([]int{1, 7, 100, 4096}).Draw(t, "maxread")
	}
	if c.MaxRead == 0 && rapid.IntRange(0, 3).Draw(t, "delay") == 0 {
		c.Delays = rapid.SliceOfN(rapid.SampledFrom([]int{0, 0, 30, 200}), 1, 4).Draw(t, "delays")
	}
	return c
}

func run(c Case, rec *h.Rec) {
	f, err := c.F.Build()
	if err != nil {
		rec.Failf("building the file: %v", err)
		return
	}
	if len(f.Bytes) == 0 {
		rec.Skip("empty file")
		return
	}
	var cur atomic.Value
	cur.Store("NewReader")
	var msg string
	var st bz.RStats
	ok := h.Call(15*time.Second, func() {
		src := bz.NewFaultReader(f.Bytes)
		src.MaxRead = c.MaxRead
		src.Delays = c.Delays
		r, err := bgzf.NewReader(src, c.RD)
		if err != nil {
			msg = "NewReader: " + err.Error()
			return
		}
		msg = bz.RunHistory(r, f, c.Ops, nil, func(s string) { cur.Store(s) }, &st)
		if msg != "" {
			return
		}
		cur.Store("Close")
		if err := r.Close(); err != nil {
			msg = "Close: " + err.Error()
		}
	})
	if !ok {
		dl, where := h.Deadlocked("hts/bgzf")
		rec.Failf("%v did not return within 15s (deadlock signature: %v)\n%s", cur.Load(), dl, where)
		return
	}
	if msg != "" {
		rec.Failf("%s [rd=%d, blocks=%v marker=%v vialib=%v]", msg, c.RD, c.F.Sizes, c.F.Marker, c.F.ViaLib)
		return
	}
	empty := false
	for _, s := range c.F.Sizes {
		if s == 0 {
			empty = true
		}
	}
	rec.ClassIf(st.Seeks > 0, "has_seek")
	rec.ClassIf(st.CrossReads > 0, "read_crosses_block_end")
	rec.ClassIf(st.AfterEnd > 0, "call_after_end_of_data")
	rec.ClassIf(st.Replays > 0, "seek_to_reported_begin")
	rec.ClassIf(st.BlockedEOF > 0, "blocked_mode_eof")
	rec.ClassIf(empty, "file_has_empty_block")
	rec.ClassIf(c.RD != 1, "read_ahead")
	rec.ClassIf(c.F.ViaLib, "file_from_library_writer")
	rec.NTIf(st.SeekThenCross || st.AfterEnd > 0)
}

func TestProp(t *testing.T) {
	h.Main(t, "C02", h.Rapid("reader_model", h.Opt{Quick: 24000, Thorough: 1000000}, draw, run))
}
