// C09: I/O faults never hang and are never swallowed by the BGZF reader or writer.
package c09

import (
	"bytes"
	"fmt"
	"io"
	"strings"
	"sync/atomic"
	"testing"
	"time"

	"github.com/biogo/hts/bgzf"
	"github.com/biogo/hts/bgzf/cache"
	"pgregory.net/rapid"

	"verif/internal/bz"
	"verif/internal/h"
)

const callTimeout = 4 * time.Second

// bgzfGoroutines counts goroutines with a frame in package bgzf.
func bgzfGoroutines() int {
	n := 0
	for _, g := range strings.Split(h.Stacks(), "\n\n") {
		if strings.Contains(g, "github.com/biogo/hts/bgzf.") {
			n++
		}
	}
	return n
}

// settled waits (up to 2s) for the number of bgzf goroutines to drop to base.
func settled(base int) (int, bool) {
	var n int
	for i := 0; i < 200; i++ {
		n = bgzfGoroutines()
		if n <= base {
			return n, true
		}
		time.Sleep(10 * time.Millisecond)
	}
	return n, false
}

type shape struct {
	Partial, Sticky bool
}

var shapes = []shape{{false, false}, {true, false}, {false, true}, {true, true}}

// ---------------------------------------------------------------------------
// writer

type WCase struct {
	S   bz.Script
	Max int // upper bound on enumerated fault points per shape (0 = all)
}

func drawW(t *rapid.T) WCase {
	s := bz.Script{
		Level: rapid.SampledFrom([]int{-1, 0, 1, 6}).Draw(t, "level"),
		WC:    rapid.SampledFrom([]int{1, 2, 4}).Draw(t, "wc"),
	}
	nb := rapid.IntRange(1, 8).Draw(t, "blocks")
	for i := 0; i < nb; i++ {
		switch rapid.IntRange(0, 3).Draw(t, "bk") {
		case 0:
			s.Ops = append(s.Ops, bz.WOp{K: "write", P: bz.Pay{Kind: rapid.IntRange(0, 3).Draw(t, "kind"), Seed: uint64(i), Len: bz.BlockSize}})
		case 1:
			s.Ops = append(s.Ops, bz.WOp{K: "write", P: bz.Pay{Kind: 1, Seed: uint64(i), Len: rapid.IntRange(1, 500).Draw(t, "small")}}, bz.WOp{K: "flush"})
		case 2:
			s.Ops = append(s.Ops, bz.WOp{K: "write", P: bz.Pay{Kind: 2, Seed: uint64(i), Len: rapid.IntRange(1, 2*bz.BlockSize).Draw(t, "any")}})
		default:
			s.Ops = append(s.Ops, bz.WOp{K: "fill", P: bz.Pay{Kind: 3, Seed: uint64(i)}, Delta: rapid.SampledFrom([]int{-1, 0, 1}).Draw(t, "delta")})
		}
		if rapid.IntRange(0, 4).Draw(t, "wait") == 0 {
			s.Ops = append(s.Ops, bz.WOp{K: "wait"})
		}
	}
	// the listed endings: Flush/Wait/Close in different orders
	switch rapid.IntRange(0, 3).Draw(t, "ending") {
	case 0:
	case 1:
		s.Ops = append(s.Ops, bz.WOp{K: "flush"}, bz.WOp{K: "wait"})
	case 2:
		s.Ops = append(s.Ops, bz.WOp{K: "wait"}, bz.WOp{K: "flush"})
	default:
		s.Ops = append(s.Ops, bz.WOp{K: "flush"}, bz.WOp{K: "write", P: bz.Pay{Kind: 1, Seed: 99, Len: 10}}, bz.WOp{K: "wait"})
	}
	if rapid.Bool().Draw(t, "delays") {
		s.Delays = rapid.SliceOfN(rapid.SampledFrom([]int{0, 50, 300, 1000}), 1, 3).Draw(t, "delayv")
	}
	return WCase{S: s}
}

func runW(c WCase, rec *h.Rec) {
	base := bgzfGoroutines()
	dry := c.S.Run(callTimeout)
	if dry.Hung != "" || len(dry.Errs) > 0 {
		rec.Skip("fault-free run of the workload misbehaves (C01/C12's business): " + dry.Hung + strings.Join(dry.Errs, ";"))
		return
	}
	N := len(dry.Cuts)
	var evals, nt uint64
	defer func() { rec.AddEvals(evals, nt) }()
	for k := 0; k < N; k++ {
		for _, sh := range shapes {
			s := c.S
			s.Fault = &bz.Fault{K: k, Partial: sh.Partial, Sticky: sh.Sticky}
			o := s.Run(callTimeout)
			evals++
			tag := fmt.Sprintf("underlying Write #%d of %d fails (partial=%v sticky=%v), wc=%d", k, N, sh.Partial, sh.Sticky, c.S.WC)
			if o.Hung != "" {
				dl, where := h.Deadlocked("hts/bgzf")
				rec.Failf("%s: %s did not return within %v (deadlock signature: %v)\n%s", tag, o.Hung, callTimeout, dl, where)
				return
			}
			if len(o.Errs) > 0 {
				rec.Failf("%s: %s", tag, o.Errs[0])
				return
			}
			if !o.Faulted {
				rec.Failf("%s: the fault was never delivered although the fault-free run makes %d underlying writes", tag, N)
				return
			}
			if !o.Closed || o.CloseErr == nil {
				rec.Failf("%s: Close returned nil although the underlying writer had returned an error; calls: %s", tag, calls(o))
				return
			}
			seen := false
			for _, cr := range o.Calls {
				if cr.Err != "" {
					seen = true
				} else if seen {
					rec.Failf("%s: %s returned nil after an earlier call had already reported the failure; calls: %s", tag, cr.What, calls(o))
					return
				}
			}
			if bz.HasMarker(o.Out) {
				rec.Failf("%s: Close failed but the output ends with the EOF marker", tag)
				return
			}
			// whatever reached the sink before the fault is a sequence of whole blocks in write order (plus, for a partial write, a cut block)
			if n, ok := settled(base); !ok {
				rec.Failf("%s: %d goroutine(s) of package bgzf remain after Close (baseline %d)\n%s", tag, n, base, firstBgzf())
				return
			}
			if k < N-1 {
				nt++ // blocks were still queued or to come when the fault hit
			}
		}
	}
	rec.ClassIf(c.S.WC > 1, "wc>1")
	rec.ClassIf(len(c.S.Delays) > 0, "delayed_sink")
	rec.NTIf(N >= 3)
}

func calls(o *bz.Outcome) string {
	var sb strings.Builder
	for _, c := range o.Calls {
		e := "nil"
		if c.Err != "" {
			e = c.Err
		}
		fmt.Fprintf(&sb, "[%s -> %s] ", c.What, e)
	}
	return sb.String()
}

func firstBgzf() string {
	for _, g := range strings.Split(h.Stacks(), "\n\n") {
		if strings.Contains(g, "github.com/biogo/hts/bgzf.") {
			if len(g) > 1200 {
				g = g[:1200]
			}
			return g
		}
	}
	return ""
}

// ---------------------------------------------------------------------------
// reader

type RCase struct {
	F     bz.FSpec
	RD    int
	Cache int // 0 none, else kind*100+cap*2 as in C03
	Ops   []bz.ROp
	Plain bool // the source is a plain io.Reader (cannot seek): Seek operations of the history are skipped
}

func drawR(t *rapid.T) RCase {
	c := RCase{F: bz.FSpecGen(6).Draw(t, "file")}
	c.RD = rapid.SampledFrom([]int{1, 2, 4}).Draw(t, "rd")
	if rapid.IntRange(0, 2).Draw(t, "cached") == 0 {
		c.Cache = rapid.IntRange(1, 3).Draw(t, "kind")*100 + rapid.IntRange(1, 3).Draw(t, "cap")*2
	}
	c.Ops = rapid.SliceOfN(rapid.Custom(func(t *rapid.T) bz.ROp {
		k := rapid.SampledFrom([]string{"seek", "seek", "read", "read", "read", "byte", "retry"}).Draw(t, "k")
		op := bz.ROp{K: k}
		switch k {
		case "seek":
			op.M = rapid.IntRange(0, 8).Draw(t, "m")
			op.O = rapid.IntRange(0, 70).Draw(t, "o")
		case "read":
			op.N = rapid.SampledFrom([]int{1, 3, 17, 64, 65, 200, 5000, 70000}).Draw(t, "n")
		case "byte":
			op.N = rapid.IntRange(1, 20).Draw(t, "n")
		}
		return op
	}), 1, 14).Draw(t, "ops")
	c.Plain = rapid.IntRange(0, 3).Draw(t, "plain") == 0
	return c
}

func mkCache(a int) bgzf.Cache {
	kind, cp := a/100, (a%100)/2
	switch kind {
	case 1:
		return cache.NewLRU(cp)
	case 2:
		return cache.NewFIFO(cp)
	case 3:
		return cache.NewRandom(cp)
	}
	return nil
}

// faultyRun executes the history with a fault plan and checks the fault
// oracle: bytes are right for their position, EOF only at the end, calls return.
func faultyRun(c RCase, f *bz.File, fault *bz.Fault, cur *atomic.Value) (msg string, calls int, delivered bool) {
	src := bz.NewFaultReader(f.Bytes)
	if fault != nil {
		src.Fault = *fault
	}
	defer func() { calls, delivered = src.NCalls(), src.Failed }()
	cur.Store("NewReader")
	var in io.Reader = src
	if c.Plain {
		in = struct{ io.Reader }{src}
	}
	r, err := bgzf.NewReader(in, c.RD)
	if err != nil {
		if fault == nil {
			return "NewReader: " + err.Error(), 0, false
		}
		return "", 0, false // failing in the constructor is a clean report
	}
	if c.Cache != 0 {
		r.SetCache(mkCache(c.Cache))
	}
	// candidate logical positions: after an error the position may be the old
	// continuation or the failed seek's target
	pos := []int{0}
	var lastSeek *bgzf.Offset
	buf := make([]byte, 70000)
	okPos := func(got []byte) []int {
		var out []int
		for _, p := range pos {
			if p+len(got) <= len(f.Flat) && bytes.Equal(f.Flat[p:p+len(got)], got) {
				out = append(out, p+len(got))
			}
		}
		return out
	}
	atEnd := func() bool {
		for _, p := range pos {
			if p == len(f.Flat) {
				return true
			}
		}
		return false
	}
	for i, op := range c.Ops {
		switch op.K {
		case "seek", "retry":
			if c.Plain {
				continue
			}
			var off bgzf.Offset
			if op.K == "retry" {
				if lastSeek == nil {
					continue
				}
				off = *lastSeek
			} else {
				k := op.M % len(f.Members)
				o := op.O % (f.Members[k].Len + 1)
				off = bgzf.Offset{File: f.Members[k].Base, Block: uint16(o)}
			}
			cur.Store(fmt.Sprintf("op %d Seek(%+v)", i, off))
			lastSeek = &off
			target, _ := f.Logical(off.File, int(off.Block))
			if err := r.Seek(off); err != nil {
				pos = append(pos, target) // position undefined: either still where it was or at the target
			} else {
				pos = []int{target}
			}
		case "read":
			cur.Store(fmt.Sprintf("op %d Read(%d)", i, op.N))
			n, err := r.Read(buf[:op.N])
			if n > 0 {
				np := okPos(buf[:n])
				if len(np) == 0 {
					return fmt.Sprintf("op %d Read(%d) returned %d bytes (err %v) that are not the data at position %v", i, op.N, n, err, pos), 0, false
				}
				pos = np
			}
			if err == io.EOF && !atEnd() {
				return fmt.Sprintf("op %d Read(%d) reported io.EOF (n=%d) at position %v of %d: clean end of data before the true end", i, op.N, n, pos, len(f.Flat)), 0, false
			}
		case "byte":
			for j := 0; j < op.N; j++ {
				cur.Store(fmt.Sprintf("op %d ReadByte #%d", i, j))
				b, err := r.ReadByte()
				if err == nil {
					np := okPos([]byte{b})
					if len(np) == 0 {
						return fmt.Sprintf("op %d ReadByte returned %#x which is not the byte at position %v", i, b, pos), 0, false
					}
					pos = np
				} else if err == io.EOF && !atEnd() {
					return fmt.Sprintf("op %d ReadByte reported io.EOF at position %v of %d", i, pos, len(f.Flat)), 0, false
				}
				if err != nil {
					break
				}
			}
		}
	}
	cur.Store("Close")
	r.Close()
	return "", 0, false
}

func runR(c RCase, rec *h.Rec) {
	f, err := c.F.Build()
	if err != nil || len(f.Bytes) == 0 {
		rec.Skip("empty file")
		return
	}
	base := bgzfGoroutines()
	var cur atomic.Value
	cur.Store("")
	var msg string
	var N int
	if !h.Call(10*time.Second, func() { msg, N, _ = faultyRun(c, f, nil, &cur) }) || msg != "" {
		rec.Skip("fault-free run of the history misbehaves (C02/C03's business): " + msg)
		return
	}
	if _, ok := settled(base); !ok {
		rec.Skip("goroutines remain after the fault-free run")
		return
	}
	var evals, nt uint64
	defer func() { rec.AddEvals(evals, nt) }()
	for k := 0; k < N; k++ {
		for _, sh := range shapes {
			fault := &bz.Fault{K: k, Partial: sh.Partial, Sticky: sh.Sticky}
			tag := fmt.Sprintf("underlying call #%d of %d fails (partial=%v sticky=%v), rd=%d cache=%d blocks=%v", k, N, sh.Partial, sh.Sticky, c.RD, c.Cache, c.F.Sizes)
			var m string
			var delivered bool
			evals++
			if !h.Call(callTimeout, func() { m, _, delivered = faultyRun(c, f, fault, &cur) }) {
				dl, where := h.Deadlocked("hts/bgzf")
				rec.Failf("%s: %v did not return within %v (deadlock signature: %v)\n%s", tag, cur.Load(), callTimeout, dl, where)
				return
			}
			if m != "" {
				rec.Failf("%s: %s", tag, m)
				return
			}
			if n, ok := settled(base); !ok {
				rec.Failf("%s: %d goroutine(s) of package bgzf remain after Close (baseline %d)\n%s", tag, n, base, firstBgzf())
				return
			}
			if delivered && c.RD > 1 {
				nt++
			}
		}
	}
	rec.ClassIf(c.RD > 1, "read_ahead")
	rec.ClassIf(c.Cache != 0, "cache")
	rec.NTIf(c.RD > 1 && N >= 3)
}

func TestProp(t *testing.T) {
	h.Main(t, "C09",
		h.Rapid("writer_faults", h.Opt{Quick: 100, Thorough: 2500}, drawW, runW),
		h.Rapid("reader_faults", h.Opt{Quick: 500, Thorough: 15000}, drawR, runR),
	)
}
