// C13: record chunks are replayable: chunk-bounded reads return exactly that span
// (bam.Reader.SetChunk / bam.Iterator / index.ChunkReader).
package c13

import (
	"bytes"
	"fmt"
	"io"
	"sort"
	"sync/atomic"
	"testing"
	"time"

	"github.com/biogo/hts/bam"
	"github.com/biogo/hts/bgzf"
	"github.com/biogo/hts/bgzf/index"
	"github.com/biogo/hts/sam"
	"pgregory.net/rapid"

	"verif/internal/bz"
	"verif/internal/h"
	"verif/internal/sb"
)

// ---------------------------------------------------------------------------
// BAM: SetChunk and Iterator

type Pair struct{ I, J int } // records I..J (indices mod number of records, ordered at run time)

type BCase struct {
	NRefs int
	Recs  []sb.ARec
	Cuts  []int // block boundaries: each is (record index, delta) encoded as idx*4+(delta+1), delta in -1,0,1,2(=middle)
	Lists [][]Pair
	RD    int
	ViaLib bool // write through bam.Writer instead of the harness encoder
}

func drawB(t *rapid.T) BCase {
	c := BCase{NRefs: rapid.IntRange(1, 3).Draw(t, "nrefs")}
	opt := sb.RecOpt{NRefs: c.NRefs, Aux: sb.AuxOpt{NoH: true}, MaxAux: 2}
	c.Recs = rapid.SliceOfN(sb.RecGen(opt), 1, 14).Draw(t, "recs")
	if rapid.IntRange(0, 5).Draw(t, "bigrec") == 0 {
		// one record larger than a BGZF block
		c.Recs[0].SeqLen = 50000
	}
	c.Cuts = rapid.SliceOfN(rapid.IntRange(0, 4*len(c.Recs)-1), 0, 8).Draw(t, "cuts")
	c.Lists = rapid.SliceOfN(rapid.SliceOfN(rapid.Custom(func(t *rapid.T) Pair {
		return Pair{rapid.IntRange(0, 20).Draw(t, "i"), rapid.IntRange(0, 20).Draw(t, "j")}
	}), 1, 5), 1, 4).Draw(t, "lists")
	c.RD = rapid.SampledFrom([]int{1, 2, 4}).Draw(t, "rd")
	c.ViaLib = rapid.IntRange(0, 3).Draw(t, "vialib") == 0
	return c
}

func header(n int) (*sam.Header, []sb.RefSpec, error) {
	var specs []sb.RefSpec
	for i := 0; i < n; i++ {
		specs = append(specs, sb.RefSpec{Name: fmt.Sprintf("ref%d", i), Len: 1 << 29})
	}
	hd, err := sb.HSpec{Version: "1.6", Refs: specs}.Build()
	return hd, specs, err
}

func runB(c BCase, rec *h.Rec) {
	hd, specs, err := header(c.NRefs)
	if err != nil {
		rec.Failf("header: %v", err)
		return
	}
	// unique names so that records can be told apart
	for i := range c.Recs {
		c.Recs[i].Name = fmt.Sprintf("r%d", i)
	}
	var file []byte
	if c.ViaLib {
		var buf bytes.Buffer
		w, err := bam.NewWriter(&buf, hd, 1)
		if err != nil {
			rec.Failf("NewWriter: %v", err)
			return
		}
		for i, a := range c.Recs {
			lr, err := a.LibRecord(hd)
			if err != nil {
				rec.Failf("record %d: %v", i, err)
				return
			}
			if err := w.Write(lr); err != nil {
				rec.Failf("Write: %v", err)
				return
			}
		}
		if err := w.Close(); err != nil {
			rec.Failf("Close: %v", err)
			return
		}
		file = buf.Bytes()
	} else {
		text, _ := hd.MarshalText()
		payload := sb.SpecBAMHeader(text, specs)
		hdrLen := len(payload)
		ends := make([]int, len(c.Recs)) // payload offset of each record's end
		for i, a := range c.Recs {
			payload = append(payload, sb.SpecBAMRecord(a)...)
			ends[i] = len(payload)
		}
		cutSet := map[int]bool{hdrLen: true}
		for _, cu := range c.Cuts {
			idx, d := cu/4, cu%4-1
			start := hdrLen
			if idx > 0 {
				start = ends[idx-1]
			}
			p := ends[idx] + d
			if d == 2 {
				p = (start + ends[idx]) / 2
			}
			if p > hdrLen && p < len(payload) {
				cutSet[p] = true
			}
		}
		var cuts []int
		for p := range cutSet {
			cuts = append(cuts, p)
		}
		sort.Ints(cuts)
		var pieces [][]byte
		prev := 0
		for _, p := range append(cuts, len(payload)) {
			for prev < p {
				e := p
				if e-prev > bz.BlockSize {
					e = prev + bz.BlockSize
				}
				pieces = append(pieces, payload[prev:e])
				prev = e
			}
		}
		file = bz.BuildFile(pieces, 6, true).Bytes
	}
	var cur atomic.Value
	cur.Store("sequential pass")
	var msg string
	straddle := false
	ok := h.Call(30*time.Second, func() { msg, straddle = chunkWalk(c, file, &cur) })
	if !ok {
		dl, where := h.Deadlocked("hts/")
		rec.Failf("%v did not return within 30s (deadlock signature %v)\n%s", cur.Load(), dl, where)
		return
	}
	if msg != "" {
		rec.Failf("%s [rd=%d, %d records, built by library writer=%v]", msg, c.RD, len(c.Recs), c.ViaLib)
		return
	}
	rec.ClassIf(straddle, "record_boundary_on_or_next_to_a_block_end")
	rec.ClassIf(c.ViaLib, "file_from_bam_writer")
	multi := false
	for _, l := range c.Lists {
		multi = multi || len(l) >= 2
	}
	rec.NTIf(straddle && multi)
}

func chunkWalk(c BCase, file []byte, cur *atomic.Value) (string, bool) {
	br, err := bam.NewReader(bytes.NewReader(file), c.RD)
	if err != nil {
		return "NewReader: " + err.Error(), false
	}
	defer br.Close()
	n := len(c.Recs)
	chunks := make([]bgzf.Chunk, n)
	straddle := false
	for i := 0; i < n; i++ {
		r, err := br.Read()
		if err != nil {
			return fmt.Sprintf("sequential Read of record %d: %v", i, err), false
		}
		if r.Name != c.Recs[i].Name {
			return fmt.Sprintf("sequential Read %d returned %q", i, r.Name), false
		}
		chunks[i] = br.LastChunk()
		if chunks[i].End.Block == 0 || chunks[i].Begin.Block == 0 || chunks[i].Begin.File != chunks[i].End.File {
			straddle = true
		}
	}
	if _, err := br.Read(); err != io.EOF {
		return fmt.Sprintf("Read after the last record: %v", err), false
	}
	for li, l := range c.Lists {
		var list []bgzf.Chunk
		var want []string
		for _, p := range l {
			i, j := p.I%n, p.J%n
			if i > j {
				i, j = j, i
			}
			list = append(list, bgzf.Chunk{Begin: chunks[i].Begin, End: chunks[j].End})
			for k := i; k <= j; k++ {
				want = append(want, c.Recs[k].Name)
			}
		}
		// SetChunk + Read loop
		var got []string
		for ci := range list {
			cur.Store(fmt.Sprintf("list %d SetChunk(%+v)", li, list[ci]))
			if err := br.SetChunk(&list[ci]); err != nil {
				return fmt.Sprintf("SetChunk(%+v): %v", list[ci], err), straddle
			}
			for {
				cur.Store(fmt.Sprintf("list %d Read within %+v", li, list[ci]))
				r, err := br.Read()
				if err == io.EOF {
					break
				}
				if err != nil {
					return fmt.Sprintf("Read within chunk %+v: %v (after %v)", list[ci], err, got), straddle
				}
				got = append(got, r.Name)
				if len(got) > len(want)+3 {
					return fmt.Sprintf("chunks %+v: SetChunk/Read yields %v..., want exactly %v", list, got, want), straddle
				}
			}
		}
		if fmt.Sprint(got) != fmt.Sprint(want) {
			return fmt.Sprintf("chunks %+v: SetChunk/Read yields %v, want exactly %v", list, got, want), straddle
		}
		br.SetChunk(nil)
		// Iterator
		cur.Store(fmt.Sprintf("list %d NewIterator", li))
		it, err := bam.NewIterator(br, append([]bgzf.Chunk(nil), list...))
		if err != nil {
			return fmt.Sprintf("NewIterator(%+v): %v", list, err), straddle
		}
		got = got[:0]
		for it.Next() {
			got = append(got, it.Record().Name)
			if len(got) > len(want)+3 {
				break
			}
		}
		if err := it.Close(); err != nil {
			return fmt.Sprintf("Iterator over %+v: %v", list, err), straddle
		}
		if fmt.Sprint(got) != fmt.Sprint(want) {
			return fmt.Sprintf("chunks %+v: Iterator yields %v, want exactly %v", list, got, want), straddle
		}
	}
	return "", straddle
}

// ---------------------------------------------------------------------------
// index.ChunkReader

type Pos struct {
	P   int  // logical position (mod len(flat)+1)
	Alt int  // which spelling of a block-boundary position to use
}

type RCase struct {
	F      bz.FSpec
	RD     int
	Points []Pos // sorted at run time; consecutive pairs form the chunks
	Bufs   []int
}

var knownZero = h.KnownRegion("C13", "zero-length-chunk-not-last")

func drawR(t *rapid.T) RCase {
	c := RCase{F: bz.FSpecGen(7).Draw(t, "file")}
	c.RD = rapid.SampledFrom([]int{1, 2, 4}).Draw(t, "rd")
	n := 2 * rapid.IntRange(1, 5).Draw(t, "nchunks")
	c.Points = rapid.SliceOfN(rapid.Custom(func(t *rapid.T) Pos {
		return Pos{rapid.IntRange(0, 400).Draw(t, "p"), rapid.IntRange(0, 3).Draw(t, "alt")}
	}), n, n).Draw(t, "points")
	c.Bufs = rapid.SliceOfN(rapid.SampledFrom([]int{1, 3, 7, 64, 100000}), 1, 3).Draw(t, "bufs")
	return c
}

// spell returns a virtual offset for logical position p.
func spell(f *bz.File, p, alt int) bgzf.Offset {
	var opts []bgzf.Offset
	for _, m := range f.Members {
		if m.Start <= p && p <= m.Start+m.Len {
			opts = append(opts, bgzf.Offset{File: m.Base, Block: uint16(p - m.Start)})
		}
	}
	return opts[alt%len(opts)]
}

func runR(c RCase, rec *h.Rec) {
	f, err := c.F.Build()
	if err != nil || len(f.Bytes) == 0 {
		rec.Skip("empty file")
		return
	}
	total := 0
	for _, s := range c.F.Sizes {
		total += s
	}
	if total > 70000 {
		rec.Skip("file larger than the position range of this sub-check")
		return
	}
	pts := append([]Pos(nil), c.Points...)
	for i := range pts {
		pts[i].P %= len(f.Flat) + 1
	}
	sort.SliceStable(pts, func(i, j int) bool { return pts[i].P < pts[j].P })
	var chunks []bgzf.Chunk
	var want []byte
	zeroNotLast, boundary := false, false
	for i := 0; i+1 < len(pts); i += 2 {
		b, e := pts[i], pts[i+1]
		ch := bgzf.Chunk{Begin: spell(f, b.P, b.Alt), End: spell(f, e.P, e.Alt)}
		if b.P == e.P {
			// a zero-length chunk: both ends must be the same spelling to stay ordered
			ch.End = ch.Begin
			if i+2 < len(pts) {
				zeroNotLast = true
			}
		}
		chunks = append(chunks, ch)
		want = append(want, f.Flat[b.P:e.P]...)
		if ch.Begin.Block == 0 || ch.End.Block == 0 {
			boundary = true
		}
	}
	// chunks must be ordered and non-overlapping in virtual offset terms as well
	for i := 1; i < len(chunks); i++ {
		if vo(chunks[i].Begin) < vo(chunks[i-1].End) {
			rec.Skip("spellings make the chunk list unordered")
			return
		}
	}
	for _, ch := range chunks {
		if vo(ch.End) < vo(ch.Begin) {
			rec.Skip("spellings make a chunk negative")
			return
		}
	}
	if zeroNotLast && knownZero && !h.Replaying() {
		rec.Skip("known:zero-length-chunk-not-last")
		return
	}
	for _, bs := range c.Bufs {
		var msg string
		var cur atomic.Value
		cur.Store("NewChunkReader")
		ok := h.Call(20*time.Second, func() {
			r, err := bgzf.NewReader(bytes.NewReader(f.Bytes), c.RD)
			if err != nil {
				msg = "NewReader: " + err.Error()
				return
			}
			defer r.Close()
			cr, err := index.NewChunkReader(r, append([]bgzf.Chunk(nil), chunks...))
			if err != nil {
				msg = "NewChunkReader: " + err.Error()
				return
			}
			var got []byte
			buf := make([]byte, bs)
			zeros := 0
			for {
				cur.Store(fmt.Sprintf("ChunkReader.Read(%d) after %d bytes", bs, len(got)))
				n, err := cr.Read(buf)
				got = append(got, buf[:n]...)
				if err == io.EOF {
					break
				}
				if err != nil {
					msg = fmt.Sprintf("Read: %v after %d bytes", err, len(got))
					return
				}
				if n == 0 {
					if zeros++; zeros > 1000 {
						msg = "Read keeps returning (0,nil)"
						return
					}
				} else {
					zeros = 0
				}
				if len(got) > len(want)+10 {
					break
				}
			}
			if !bytes.Equal(got, want) {
				msg = fmt.Sprintf("returned %d bytes, the chunks span %d bytes (first difference at %d)", len(got), len(want), firstDiff(got, want))
				return
			}
			if n, err := cr.Read(buf); n != 0 || err != io.EOF {
				msg = fmt.Sprintf("Read after io.EOF returned (%d,%v)", n, err)
				return
			}
			cr.Close()
		})
		if !ok {
			dl, where := h.Deadlocked("hts/bgzf")
			rec.Failf("%v did not return within 20s (deadlock signature %v)\n%s", cur.Load(), dl, where)
			return
		}
		if msg != "" {
			rec.Failf("ChunkReader over %+v with buffer %d: %s [rd=%d blocks=%v marker=%v]", chunks, bs, msg, c.RD, c.F.Sizes, c.F.Marker)
			return
		}
	}
	multi := false
	for i := 1; i < len(chunks); i++ {
		if chunks[i].Begin.File != chunks[0].Begin.File {
			multi = true
		}
	}
	rec.ClassIf(zeroNotLast, "zero_length_chunk_not_last")
	rec.ClassIf(boundary, "chunk_end_on_block_boundary")
	rec.NTIf(boundary || (len(chunks) >= 2 && multi))
}

func vo(o bgzf.Offset) int64 { return o.File<<16 | int64(o.Block) }

func firstDiff(a, b []byte) int {
	for i := range a {
		if i >= len(b) || a[i] != b[i] {
			return i
		}
	}
	return len(a)
}

func TestProp(t *testing.T) {
	h.Main(t, "C13",
		h.Rapid("bam_chunks", h.Opt{Quick: 4000, Thorough: 150000}, drawB, runB),
		h.Rapid("chunk_reader", h.Opt{Quick: 12000, Thorough: 600000}, drawR, runR),
	)
}
