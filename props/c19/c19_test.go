// C19: FAI index and File return exactly the requested subsequence.
package c19

import (
	"bytes"
	"fmt"
	"io"
	"strings"
	"testing"

	"github.com/biogo/hts/fai"
	"pgregory.net/rapid"

	"verif/internal/h"
)

type FRec struct {
	Name  string
	Desc  string // "" = none; otherwise follows the name after a separator
	Sep   string // " " or "\t"
	Seq   string
	Rep   int // >1: the sequence is Seq repeated Rep times (files larger than a 4 KiB or 64 KiB read buffer)
	Width int
	Blank int // blank lines before this record's header
}

func (r FRec) full() string {
	if r.Rep > 1 {
		return strings.Repeat(r.Seq, r.Rep)
	}
	return r.Seq
}

type Case struct {
	Recs         []FRec
	CRLF         bool
	FinalNewline bool
	BlankEnd     int
	Bufs         []int
	Chunk        int  // >0: NewIndex reads the file through a reader that returns at most Chunk bytes per call
	EagerEOF     bool // File reads through an io.ReaderAt that reports io.EOF together with a read that ends exactly at the end of the file (the io.ReaderAt contract allows it)
}

type chunkReader struct {
	b []byte
	n int
}

func (c *chunkReader) Read(p []byte) (int, error) {
	if len(c.b) == 0 {
		return 0, io.EOF
	}
	n := len(p)
	if n > c.n {
		n = c.n
	}
	if n > len(c.b) {
		n = len(c.b)
	}
	copy(p, c.b[:n])
	c.b = c.b[n:]
	return n, nil
}

// stingy accepts room bytes and then fails
type stingy struct{ room int }

func (s *stingy) Write(p []byte) (int, error) {
	if len(p) <= s.room {
		s.room -= len(p)
		return len(p), nil
	}
	n := s.room
	s.room = 0
	return n, io.ErrShortWrite
}

type eagerEOF struct{ b []byte }

func (e eagerEOF) ReadAt(p []byte, off int64) (int, error) {
	if off >= int64(len(e.b)) {
		return 0, io.EOF
	}
	n := copy(p, e.b[off:])
	if int(off)+n == len(e.b) {
		return n, io.EOF
	}
	return n, nil
}

func recGen() *rapid.Generator[FRec] {
	return rapid.Custom(func(t *rapid.T) FRec {
		name := rapid.StringMatching(`[!#-=?-~][!#-~]{0,11}`).Draw(t, "name")
		desc := ""
		if rapid.Bool().Draw(t, "hasDesc") {
			desc = rapid.StringMatching(`[!-~]{1,8}([ \t][!-~]{1,5}){0,2}`).Draw(t, "desc")
		}
		seq := rapid.StringMatching(`[ACGTNacgtn]{1,200}`).Draw(t, "seq")
		if rapid.IntRange(0, 3).Draw(t, "short") == 0 {
			seq = rapid.StringMatching(`[ACGT]{1,12}`).Draw(t, "sseq")
		}
		w := rapid.IntRange(1, 80).Draw(t, "width")
		switch rapid.IntRange(0, 4).Draw(t, "wk") {
		case 0: // length is a multiple of the width
			d := rapid.IntRange(1, 6).Draw(t, "div")
			if len(seq)%d == 0 {
				w = len(seq) / d
			}
		case 1:
			w = rapid.IntRange(1, 6).Draw(t, "narrow")
		case 2:
			w = len(seq) + rapid.IntRange(-1, 1).Draw(t, "around")
		}
		if w < 1 {
			w = 1
		}
		blank := 0
		if rapid.IntRange(0, 3).Draw(t, "blankk") == 0 {
			blank = rapid.IntRange(1, 2).Draw(t, "blank")
		}
		rep := 1
		if rapid.IntRange(0, 11).Draw(t, "long") == 0 {
			rep = rapid.SampledFrom([]int{25, 60, 400, -5000, -70000, -140000}).Draw(t, "rep")
			if rep < 0 { // a target length rather than a count
				rep = (-rep + len(seq) - 1) / len(seq)
			}
		}
		if rep > 1 && rapid.IntRange(0, 2).Draw(t, "wide") == 0 {
			// unwrapped or widely wrapped sequence: lines around the 4 KiB and 64 KiB
			// buffer sizes of line readers, or the whole sequence on one line
			L := len(seq) * rep
			w = rapid.SampledFrom([]int{4093, 4094, 4095, 4096, 4097, 65533, 65534, 65535, 65536, 65537, L - 1, L, L + 1}).Draw(t, "wideWidth")
		}
		return FRec{Name: name, Desc: desc, Sep: rapid.SampledFrom([]string{" ", "\t"}).Draw(t, "sep"), Seq: seq, Rep: rep, Width: w, Blank: blank}
	})
}

func draw(t *rapid.T) Case {
	recs := rapid.SliceOfNDistinct(recGen(), 1, 6, func(r FRec) string { return r.Name }).Draw(t, "recs")
	recs[0].Blank = 0 // a leading blank line is not "between records"
	c := Case{Recs: recs,
		CRLF:         rapid.Bool().Draw(t, "crlf"),
		FinalNewline: rapid.IntRange(0, 3).Draw(t, "fnl") != 0,
	}
	if c.FinalNewline && rapid.IntRange(0, 3).Draw(t, "be") == 0 {
		c.BlankEnd = rapid.IntRange(1, 2).Draw(t, "blankEnd")
	}
	c.Bufs = rapid.SliceOfN(rapid.SampledFrom([]int{1, 2, 3, 5, 7, 16, 10000}), 1, 3).Draw(t, "bufs")
	if rapid.IntRange(0, 2).Draw(t, "chunked") == 0 {
		c.Chunk = rapid.SampledFrom([]int{1, 2, 3, 7, 64, 4095, 4096, 4097}).Draw(t, "chunk")
	}
	c.EagerEOF = rapid.IntRange(0, 2).Draw(t, "eagerEOF") == 0
	return c
}

type truth struct {
	start        int64
	nlines       int
	bases, bytes int
}

func build(c Case) ([]byte, []truth) {
	nl := "\n"
	if c.CRLF {
		nl = "\r\n"
	}
	var b bytes.Buffer
	tr := make([]truth, len(c.Recs))
	for i, r := range c.Recs {
		r.Seq = r.full()
		for k := 0; k < r.Blank; k++ {
			b.WriteString(nl)
		}
		b.WriteString(">" + r.Name)
		if r.Desc != "" {
			b.WriteString(r.Sep + r.Desc)
		}
		b.WriteString(nl)
		tr[i].start = int64(b.Len())
		last := i == len(c.Recs)-1
		for p := 0; p < len(r.Seq); p += r.Width {
			e := p + r.Width
			if e > len(r.Seq) {
				e = len(r.Seq)
			}
			b.WriteString(r.Seq[p:e])
			tr[i].nlines++
			if !(last && e == len(r.Seq) && !c.FinalNewline) {
				b.WriteString(nl)
			}
		}
		tr[i].bases = r.Width
		if len(r.Seq) < r.Width {
			tr[i].bases = len(r.Seq)
		}
		tr[i].bytes = tr[i].bases + len(nl)
	}
	for k := 0; k < c.BlankEnd; k++ {
		b.WriteString(nl)
	}
	return b.Bytes(), tr
}

func run(c Case, rec *h.Rec) {
	data, tr := build(c)
	var src io.Reader = bytes.NewReader(data)
	if c.Chunk > 0 {
		src = &chunkReader{b: data, n: c.Chunk}
	}
	idx, err := fai.NewIndex(src)
	if err != nil {
		rec.Failf("NewIndex failed on a well-formed FASTA: %v\n%q", err, data)
		return
	}
	if len(idx) != len(c.Recs) {
		rec.Failf("NewIndex returned %d records, file has %d\n%q", len(idx), len(c.Recs), data)
		return
	}
	for i, r := range c.Recs {
		r.Seq = r.full()
		got, ok := idx[r.Name]
		if !ok {
			rec.Failf("record %q missing from index\n%q", r.Name, data)
			return
		}
		if got.Name != r.Name || got.Length != len(r.Seq) || got.Start != tr[i].start {
			rec.Failf("record %q: index has Length=%d Start=%d, file has length %d, sequence starts at byte %d\n%q", r.Name, got.Length, got.Start, len(r.Seq), tr[i].start, data)
			return
		}
		if tr[i].nlines >= 2 && (got.BasesPerLine != tr[i].bases || got.BytesPerLine != tr[i].bytes) {
			rec.Failf("record %q: BasesPerLine/BytesPerLine = %d/%d, file has %d/%d\n%q", r.Name, got.BasesPerLine, got.BytesPerLine, tr[i].bases, tr[i].bytes, data)
			return
		}
	}
	// write / read round trip
	// an earlier WriteTo to a destination that fails part-way leaves no trace
	for _, room := range []int{0, 1, 7} {
		if err := fai.WriteTo(&stingy{room: room}, idx); err == nil && room < 7 {
			rec.Failf("WriteTo to a destination that accepts %d bytes returned nil", room)
			return
		}
	}
	var w bytes.Buffer
	if err := fai.WriteTo(&w, idx); err != nil {
		rec.Failf("WriteTo: %v", err)
		return
	}
	idx2, err := fai.ReadFrom(bytes.NewReader(w.Bytes()))
	if err != nil {
		rec.Failf("ReadFrom(WriteTo(idx)): %v\n%q", err, w.Bytes())
		return
	}
	if len(idx2) != len(idx) {
		rec.Failf("index round trip changed the number of records %d -> %d", len(idx), len(idx2))
		return
	}
	for k, v := range idx {
		if idx2[k] != v {
			rec.Failf("index round trip changed record %q: %+v -> %+v", k, v, idx2[k])
			return
		}
	}
	// the written form lists records in file order with the true values
	lines := strings.Split(strings.TrimSuffix(w.String(), "\n"), "\n")
	if len(lines) != len(c.Recs) {
		rec.Failf("WriteTo wrote %d lines for %d records", len(lines), len(c.Recs))
		return
	}
	for i, r := range c.Recs {
		r.Seq = r.full()
		if !strings.HasPrefix(lines[i], fmt.Sprintf("%s\t%d\t%d\t", r.Name, len(r.Seq), tr[i].start)) {
			rec.Failf("WriteTo line %d = %q, want name %q length %d start %d first", i, lines[i], r.Name, len(r.Seq), tr[i].start)
			return
		}
	}

	var ra io.ReaderAt = bytes.NewReader(data)
	if c.EagerEOF {
		ra = eagerEOF{data}
	}
	f := fai.NewFile(ra, idx2)
	lineEndRange, blankBefore := false, false
	for i, r := range c.Recs {
		r.Seq = r.full()
		if r.Blank > 0 {
			blankBefore = true
		}
		L := len(r.Seq)
		var pts []int
		if L <= 10 {
			for p := 0; p <= L; p++ {
				pts = append(pts, p)
			}
		} else {
			seen := map[int]bool{}
			for _, p := range []int{0, 1, r.Width - 1, r.Width, r.Width + 1, 2*r.Width - 1, 2 * r.Width, 2*r.Width + 1, L / 2, (L / r.Width) * r.Width, (L/r.Width)*r.Width - 1, L - r.Width, L - 1, L} {
				if p >= 0 && p <= L && !seen[p] {
					seen[p] = true
					pts = append(pts, p)
				}
			}
		}
		for _, s := range pts {
			for _, e := range pts {
				if e < s {
					continue
				}
				if e > s && e%r.Width == 0 {
					lineEndRange = true
				}
				for _, bs := range c.Bufs {
					if bs < 16 && e-s > 2000 {
						continue // cost: long ranges are not read a few bytes at a time
					}
					sq, err := f.SeqRange(r.Name, s, e)
					if err != nil {
						rec.Failf("SeqRange(%q,%d,%d): %v", r.Name, s, e, err)
						return
					}
					got, msg := readAll(sq, bs)
					if msg != "" {
						rec.Failf("SeqRange(%q,%d,%d) buffer %d: %s\n%q", r.Name, s, e, bs, msg, data)
						return
					}
					if string(got) != r.Seq[s:e] {
						rec.Failf("SeqRange(%q,%d,%d) buffer %d returned %q, want %q (record %d)\n%q", r.Name, s, e, bs, got, r.Seq[s:e], i, data)
						return
					}
				}
			}
		}
		sq, err := f.Seq(r.Name)
		if err != nil {
			rec.Failf("Seq(%q): %v", r.Name, err)
			return
		}
		// a handle stays what it was when another one is obtained and read
		if L >= 2 {
			other, err := f.SeqRange(c.Recs[(i+1)%len(c.Recs)].Name, 0, 1)
			if err != nil {
				rec.Failf("SeqRange of the next record: %v", err)
				return
			}
			if _, msg := readAll(other, 7); msg != "" {
				rec.Failf("SeqRange of the next record: %s", msg)
				return
			}
		}
		got, msg := readAll(sq, c.Bufs[0])
		if msg != "" || string(got) != r.Seq {
			rec.Failf("Seq(%q) buffer %d returned %q (%s), want %q\n%q", r.Name, c.Bufs[0], got, msg, r.Seq, data)
			return
		}
	}
	rec.ClassIf(c.Chunk > 0, "index_built_from_a_chunked_reader")
	rec.ClassIf(c.EagerEOF, "readerat_reports_eof_with_the_last_bytes")
	rec.ClassIf(len(data) > 4096, "file_larger_than_4KiB")
	rec.ClassIf(len(data) > 65536, "file_larger_than_64KiB")
	wide4k, wide64k := false, false
	for _, r := range c.Recs {
		if n := len(r.full()); r.Width >= 4096 && n >= 4096 {
			wide4k = true
			if r.Width >= 65536 && n >= 65536 {
				wide64k = true
			}
		}
	}
	rec.ClassIf(wide4k, "line_of_4KiB_or_more")
	rec.ClassIf(wide64k, "line_of_64KiB_or_more")
	rec.ClassIf(c.CRLF, "crlf")
	rec.ClassIf(blankBefore, "blank_line_between_records")
	rec.ClassIf(c.BlankEnd > 0, "blank_lines_at_end")
	rec.ClassIf(!c.FinalNewline, "no_final_newline")
	rec.ClassIf(lineEndRange, "range_ends_at_line_end")
	rec.NTIf(len(c.Recs) >= 2 && (lineEndRange || c.CRLF || blankBefore))
}

func readAll(r io.Reader, bs int) ([]byte, string) {
	var out []byte
	buf := make([]byte, bs)
	zero := 0
	for len(out) <= 1<<24 { // no generated sequence is anywhere near 16 MiB
		n, err := r.Read(buf)
		if n < 0 || n > bs {
			return out, fmt.Sprintf("Read returned n=%d for a %d byte buffer", n, bs)
		}
		out = append(out, buf[:n]...)
		if err == io.EOF {
			// after EOF it must stay at EOF with no data
			n2, err2 := r.Read(buf)
			if n2 != 0 || err2 != io.EOF {
				return out, fmt.Sprintf("Read after io.EOF returned (%d,%v)", n2, err2)
			}
			return out, ""
		}
		if err != nil {
			return out, fmt.Sprintf("Read error %v after %d bytes", err, len(out))
		}
		if n == 0 {
			if zero++; zero > 1000 {
				return out, "Read keeps returning (0,nil)"
			}
		}
	}
	return out, "no io.EOF after 16 MiB of data"
}

func TestProp(t *testing.T) {
	h.Main(t, "C19", h.Rapid("fasta", h.Opt{Quick: 40000, Thorough: 800000}, draw, run))
}
