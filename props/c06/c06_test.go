// C06: SAM text round trip; the SAM and BAM views of a record agree; the SAM reader returns every line.
package c06

import (
	"bytes"
	"fmt"
	"io"
	"reflect"
	"strconv"
	"strings"
	"testing"

	"github.com/biogo/hts/bam"
	"github.com/biogo/hts/sam"
	"pgregory.net/rapid"

	"verif/internal/h"
	"verif/internal/sb"
)

type Case struct {
	H       sb.HSpec
	Recs    []sb.ARec
	FlagFmt int // 0 decimal, 1 hexadecimal
	// reader input shape
	CRLF         bool
	FinalNewline bool
	WithHeader   bool
}

func draw(t *rapid.T) Case {
	c := Case{H: sb.HSpecGen(1, 4).Draw(t, "header")}
	opt := sb.RecOpt{NRefs: len(c.H.Refs), Valid: true, MaxAux: 6, BigSizes: true} // lines longer than bufio's 4096-byte buffer and than 64 KiB included
	c.Recs = rapid.SliceOfN(sb.RecGen(opt), 1, 6).Draw(t, "recs")
	c.FlagFmt = rapid.IntRange(0, 1).Draw(t, "flagfmt")
	c.CRLF = rapid.Bool().Draw(t, "crlf")
	c.FinalNewline = rapid.IntRange(0, 2).Draw(t, "finalnl") != 0
	c.WithHeader = rapid.Bool().Draw(t, "withheader")
	return c
}

// sameLine compares two SAM lines; float tokens are compared by value.
func sameLine(a, b string) bool {
	if a == b {
		return true
	}
	fa, fb := strings.Split(a, "\t"), strings.Split(b, "\t")
	if len(fa) != len(fb) {
		return false
	}
	for i := range fa {
		if fa[i] == fb[i] {
			continue
		}
		if i < 11 || len(fa[i]) < 5 || len(fb[i]) < 5 || fa[i][:5] != fb[i][:5] {
			return false
		}
		switch {
		case fa[i][3] == 'f':
			if !sameFloat(fa[i][5:], fb[i][5:]) {
				return false
			}
		case fa[i][3] == 'B' && len(fa[i]) > 5 && fa[i][5] == 'f':
			xa, xb := strings.Split(fa[i][5:], ","), strings.Split(fb[i][5:], ",")
			if len(xa) != len(xb) {
				return false
			}
			for k := 1; k < len(xa); k++ {
				if !sameFloat(xa[k], xb[k]) {
					return false
				}
			}
		default:
			return false
		}
	}
	return true
}

func sameFloat(a, b string) bool {
	x, e1 := strconv.ParseFloat(a, 32)
	y, e2 := strconv.ParseFloat(b, 32)
	return e1 == nil && e2 == nil && float32(x) == float32(y)
}

func auxNumeric(v interface{}) (int64, bool) {
	switch x := v.(type) {
	case int8:
		return int64(x), true
	case uint8:
		return int64(x), true
	case int16:
		return int64(x), true
	case uint16:
		return int64(x), true
	case int32:
		return int64(x), true
	case uint32:
		return int64(x), true
	}
	return 0, false
}

func sameAuxValue(a, b sam.Aux) bool {
	if a.Tag() != b.Tag() || a.Kind() != b.Kind() {
		return false
	}
	va, vb := a.Value(), b.Value()
	if x, ok := auxNumeric(va); ok {
		y, ok2 := auxNumeric(vb)
		return ok2 && x == y
	}
	return reflect.DeepEqual(va, vb)
}

func run(c Case, rec *h.Rec) {
	hd, err := c.H.Build()
	if err != nil {
		rec.Failf("building the header: %v", err)
		return
	}
	flagFmt := sam.FlagDecimal
	if c.FlagFmt == 1 {
		flagFmt = sam.FlagHex
	}
	var lines []string
	var libRecs []*sam.Record
	special := false
	var prevB []byte
	var prevLine string
	var reused sam.Record // one Record value that every line is parsed into in turn
	for i, a := range c.Recs {
		lr, err := a.LibRecord(hd)
		if err != nil {
			rec.Failf("building record %d: %v", i, err)
			return
		}
		libRecs = append(libRecs, lr)
		b, err := lr.MarshalSAM(flagFmt)
		if err != nil {
			rec.Failf("MarshalSAM(record %d): %v", i, err)
			return
		}
		line := string(b)
		// the returned line belongs to the caller: formatting again (the other flag
		// spelling gives different text) must leave it as it was
		if alt, err := lr.MarshalSAM(sam.FlagDecimal + sam.FlagHex - flagFmt); err != nil || string(alt) == line {
			rec.Failf("MarshalSAM(record %d) with the other flag format: err %v, same text %v", i, err, string(alt) == line)
			return
		}
		if string(b) != line {
			rec.Failf("the line returned by MarshalSAM changed when MarshalSAM was called again:\n  %q\n  %q", line, b)
			return
		}
		if prevB != nil && string(prevB) != prevLine {
			rec.Failf("the line returned for record %d changed while record %d was formatted and parsed:\n  %q\n  %q", i-1, i, prevLine, prevB)
			return
		}
		prevB, prevLine = b, line
		want := sb.SpecSAMLine(a, c.H.Refs, c.FlagFmt)
		if !sameLine(line, want) {
			rec.Failf("record %d formats as\n  %q\nthe specification formatter gives\n  %q", i, line, want)
			return
		}
		// parse back
		var back sam.Record
		if err := back.UnmarshalSAM(hd, b); err != nil {
			rec.Failf("UnmarshalSAM rejects the line MarshalSAM produced: %v\n  %q", err, line)
			return
		}
		b2, err := back.MarshalSAM(flagFmt)
		if err != nil || string(b2) != line {
			rec.Failf("line changes after a parse/format cycle (err %v):\n  %q\n  %q", err, line, b2)
			return
		}
		if msg := sameFields(lr, &back); msg != "" {
			rec.Failf("record %d after UnmarshalSAM: %s\n  %q", i, msg, line)
			return
		}
		// the same line parsed without a header (UnmarshalSAM documents this
		// mode: references become placeholders that carry only the name)
		var free sam.Record
		if err := free.UnmarshalSAM(nil, b); err != nil {
			rec.Failf("UnmarshalSAM(nil header) rejects the line MarshalSAM produced: %v\n  %q", err, line)
			return
		}
		if b3, err := free.MarshalSAM(flagFmt); err != nil || string(b3) != line {
			rec.Failf("line changes after a parse/format cycle without a header (err %v):\n  %q\n  %q", err, line, b3)
			return
		}
		// a Record that held another line before
		if err := reused.UnmarshalSAM(hd, []byte(line)); err != nil {
			rec.Failf("UnmarshalSAM into a Record that was used before rejects the line: %v\n  %q", err, line)
			return
		}
		if b4, err := reused.MarshalSAM(flagFmt); err != nil || string(b4) != line {
			rec.Failf("a Record that was used before holds something else after UnmarshalSAM (err %v):\n  %q\n  %q", err, line, b4)
			return
		}
		lines = append(lines, line)
		kinds := map[byte]bool{}
		for _, x := range a.Aux {
			kinds[x.Ty] = true
		}
		if len(kinds) >= 2 || a.Ref < 0 || a.Mate < 0 || a.Mate == a.Ref || a.SeqLen == 0 || !a.HasQual {
			special = true
		}
	}
	// BAM view agrees with the SAM view
	var bamBuf bytes.Buffer
	bw, err := bam.NewWriter(&bamBuf, hd, 1)
	if err != nil {
		rec.Failf("bam.NewWriter: %v", err)
		return
	}
	for i, lr := range libRecs {
		if err := bw.Write(lr); err != nil {
			rec.Failf("bam Write(record %d): %v", i, err)
			return
		}
	}
	if err := bw.Close(); err != nil {
		rec.Failf("bam Close: %v", err)
		return
	}
	br, err := bam.NewReader(bytes.NewReader(bamBuf.Bytes()), 1)
	if err != nil {
		rec.Failf("bam.NewReader: %v", err)
		return
	}
	// all records are read first and formatted afterwards: a record must not
	// change when the reader moves on
	var readBack []*sam.Record
	for i := range libRecs {
		r, err := br.Read()
		if err != nil {
			rec.Failf("bam Read(record %d): %v", i, err)
			return
		}
		readBack = append(readBack, r)
	}
	br.Close()
	for i, r := range readBack {
		b, err := r.MarshalSAM(flagFmt)
		if err != nil || string(b) != lines[i] {
			rec.Failf("record %d read back from BAM formats as (err %v)\n  %q\nthe written record as\n  %q", i, err, b, lines[i])
			return
		}
	}

	// sam.Reader returns every line as one record
	nl := "\n"
	if c.CRLF {
		nl = "\r\n"
	}
	var in bytes.Buffer
	if c.WithHeader {
		text, _ := hd.MarshalText()
		if c.CRLF {
			text = bytes.ReplaceAll(text, []byte("\n"), []byte("\r\n"))
		}
		in.Write(text)
	}
	longLine, hugeLine := false, false
	for i, l := range lines {
		longLine = longLine || len(l) > 4096
		hugeLine = hugeLine || len(l) > 65536
		in.WriteString(l)
		if i < len(lines)-1 || c.FinalNewline {
			in.WriteString(nl)
		}
	}
	sr, err := sam.NewReader(bytes.NewReader(in.Bytes()))
	if err != nil {
		rec.Failf("sam.NewReader: %v\n%q", err, in.String())
		return
	}
	n := 0
	for {
		r, err := sr.Read()
		if err == io.EOF {
			break
		}
		if err != nil {
			rec.Failf("sam.Reader.Read of line %d: %v (crlf=%v final newline=%v header=%v)", n, err, c.CRLF, c.FinalNewline, c.WithHeader)
			return
		}
		if n >= len(lines) {
			rec.Failf("sam.Reader returned more than %d records", len(lines))
			return
		}
		b, err := r.MarshalSAM(flagFmt)
		if err != nil || string(b) != lines[n] {
			rec.Failf("sam.Reader record %d formats as (err %v)\n  %q\ninput line\n  %q", n, err, b, lines[n])
			return
		}
		n++
	}
	if n != len(lines) {
		rec.Failf("sam.Reader returned %d records for %d input lines (crlf=%v, final newline=%v, header lines=%v)", n, len(lines), c.CRLF, c.FinalNewline, c.WithHeader)
		return
	}
	rec.ClassIf(c.CRLF, "crlf")
	rec.ClassIf(longLine, "line_longer_than_4096_bytes")
	rec.ClassIf(hugeLine, "line_longer_than_64KiB")
	rec.ClassIf(!c.FinalNewline, "no_final_newline")
	rec.ClassIf(c.FlagFmt == 1, "hex_flags")
	rec.ClassIf(!c.WithHeader, "reader_without_header_lines")
	rec.NTIf(special || c.CRLF || !c.FinalNewline)
}

func sameFields(w, g *sam.Record) string {
	if g.Name != w.Name || g.Flags != w.Flags || g.Pos != w.Pos || g.MapQ != w.MapQ || g.MatePos != w.MatePos || g.TempLen != w.TempLen {
		return fmt.Sprintf("name/flags/pos/mapq/matepos/tlen = %q/%d/%d/%d/%d/%d, want %q/%d/%d/%d/%d/%d", g.Name, g.Flags, g.Pos, g.MapQ, g.MatePos, g.TempLen, w.Name, w.Flags, w.Pos, w.MapQ, w.MatePos, w.TempLen)
	}
	if g.Ref != w.Ref || g.MateRef != w.MateRef {
		return "Ref/MateRef is not the same reference of the header"
	}
	if len(g.Cigar) != len(w.Cigar) {
		return fmt.Sprintf("%d CIGAR ops, want %d", len(g.Cigar), len(w.Cigar))
	}
	for i := range g.Cigar {
		if g.Cigar[i] != w.Cigar[i] {
			return fmt.Sprintf("CIGAR op %d = %v, want %v", i, g.Cigar[i], w.Cigar[i])
		}
	}
	if g.Seq.Length != w.Seq.Length || !bytes.Equal(g.Seq.Expand(), w.Seq.Expand()) {
		return "sequence differs"
	}
	wq := w.Qual
	if wq == nil {
		wq = bytes.Repeat([]byte{0xff}, w.Seq.Length)
	}
	gq := g.Qual
	if gq == nil {
		gq = bytes.Repeat([]byte{0xff}, g.Seq.Length)
	}
	if !bytes.Equal(gq, wq) {
		return "qualities differ"
	}
	if len(g.AuxFields) != len(w.AuxFields) {
		return fmt.Sprintf("%d aux fields, want %d", len(g.AuxFields), len(w.AuxFields))
	}
	for i := range g.AuxFields {
		if !sameAuxValue(g.AuxFields[i], w.AuxFields[i]) {
			return fmt.Sprintf("aux field %d = %v, want %v", i, g.AuxFields[i], w.AuxFields[i])
		}
	}
	return ""
}

func TestProp(t *testing.T) {
	h.Main(t, "C06", h.Rapid("sam_text", h.Opt{Quick: 24000, Thorough: 1500000}, draw, run))
}
