// C20: ITF-8 / LTF-8 codecs are exact inverses and match CRAM spec section 2.3.
package c20

import (
	"bytes"
	"fmt"
	"math/bits"
	"testing"

	"github.com/biogo/hts/cram/encoding/itf8"
	"github.com/biogo/hts/cram/encoding/ltf8"
	"pgregory.net/rapid"

	"verif/internal/h"
)

// ---- independent encoders/decoders written from CRAM v3 section 2.3 ----

// specITF8 returns the encoding; for the 5-byte form only the low nibble of
// the last byte is specified (mask reports which bits of each byte are defined).
func specITF8(v int32) (enc []byte, lastMask byte) {
	u := uint32(v)
	switch {
	case u>>7 == 0:
		return []byte{byte(u)}, 0xff
	case u>>14 == 0:
		return []byte{0x80 | byte(u>>8), byte(u)}, 0xff
	case u>>21 == 0:
		return []byte{0xc0 | byte(u>>16), byte(u >> 8), byte(u)}, 0xff
	case u>>28 == 0:
		return []byte{0xe0 | byte(u>>24), byte(u >> 16), byte(u >> 8), byte(u)}, 0xff
	}
	return []byte{0xf0 | byte(u>>28), byte(u >> 20), byte(u >> 12), byte(u >> 4), byte(u & 0x0f)}, 0x0f
}

func specITF8Len(first byte) int {
	switch {
	case first&0x80 == 0:
		return 1
	case first&0x40 == 0:
		return 2
	case first&0x20 == 0:
		return 3
	case first&0x10 == 0:
		return 4
	}
	return 5
}

func specITF8Decode(b []byte) int32 {
	n := specITF8Len(b[0])
	var u uint32
	switch n {
	case 1:
		u = uint32(b[0])
	case 2:
		u = uint32(b[0]&0x3f)<<8 | uint32(b[1])
	case 3:
		u = uint32(b[0]&0x1f)<<16 | uint32(b[1])<<8 | uint32(b[2])
	case 4:
		u = uint32(b[0]&0x0f)<<24 | uint32(b[1])<<16 | uint32(b[2])<<8 | uint32(b[3])
	case 5:
		u = uint32(b[0]&0x0f)<<28 | uint32(b[1])<<20 | uint32(b[2])<<12 | uint32(b[3])<<4 | uint32(b[4]&0x0f)
	}
	return int32(u)
}

func specLTF8(v int64) []byte {
	u := uint64(v)
	n := 9
	for k := 1; k <= 8; k++ {
		if u>>(7*uint(k)) == 0 {
			n = k
			break
		}
	}
	out := make([]byte, n)
	// payload bytes, big endian, after the first byte
	for i := n - 1; i >= 1; i-- {
		out[i] = byte(u)
		u >>= 8
	}
	switch {
	case n == 9:
		out[0] = 0xff
	case n == 8:
		out[0] = 0xfe
	default:
		prefix := byte(0xff) << uint(9-n) // n-1 leading ones then a zero
		out[0] = prefix | byte(u)
	}
	return out
}

func specLTF8Len(first byte) int { return bits.LeadingZeros8(^first) + 1 }

func specLTF8Decode(b []byte) int64 {
	n := specLTF8Len(b[0])
	var u uint64
	if n <= 7 {
		u = uint64(b[0] & (0xff >> uint(n)))
	}
	for i := 1; i < n; i++ {
		u = u<<8 | uint64(b[i])
	}
	return int64(u)
}

// ---- checks ----

type ICase struct{ V int32 }
type LCase struct{ V int64 }

func checkITF(v int32, rec *h.Rec) {
	h.Safe(rec, fmt.Sprintf("itf8 codec on %d (%#x)", v, uint32(v)), func() { checkITFRaw(v, rec) })
}

func checkITFRaw(v int32, rec *h.Rec) {
	var buf [8]byte
	for i := range buf {
		buf[i] = 0xa5
	}
	want, mask := specITF8(v)
	n := itf8.Encode(buf[:], v)
	if n != len(want) {
		rec.Failf("itf8.Encode(%d) wrote %d bytes, spec says %d", v, n, len(want))
		return
	}
	if l := itf8.Len(v); l != n {
		rec.Failf("itf8.Len(%d)=%d but Encode wrote %d", v, l, n)
		return
	}
	for i := 0; i < n; i++ {
		m := byte(0xff)
		if i == n-1 {
			m = mask
		}
		if buf[i]&m != want[i]&m {
			rec.Failf("itf8.Encode(%d)=% x, spec % x (byte %d differs)", v, buf[:n], want, i)
			return
		}
	}
	for i := n; i < len(buf); i++ {
		if buf[i] != 0xa5 {
			rec.Failf("itf8.Encode(%d) wrote beyond the %d bytes it reported", v, n)
			return
		}
	}
	got, dn, ok := itf8.Decode(buf[:n])
	if !ok || dn != n || got != v {
		rec.Failf("itf8.Decode(Encode(%d)=% x) = (%d,%d,%v)", v, buf[:n], got, dn, ok)
		return
	}
	// Len(v) bytes of room are enough
	exact := make([]byte, n)
	if m := itf8.Encode(exact[:n:n], v); m != n {
		rec.Failf("itf8.Encode(%d) into a buffer of exactly Len=%d bytes wrote %d bytes", v, n, m)
		return
	}
	// decoding the specification's bytes must give v as well (catches symmetric mistakes)
	got, dn, ok = itf8.Decode(want)
	if !ok || dn != n || got != v {
		rec.Failf("itf8.Decode(spec encoding % x of %d) = (%d,%d,%v)", want, v, got, dn, ok)
	}
}

func checkLTF(v int64, rec *h.Rec) {
	h.Safe(rec, fmt.Sprintf("ltf8 codec on %d (%#x)", v, uint64(v)), func() { checkLTFRaw(v, rec) })
}

func checkLTFRaw(v int64, rec *h.Rec) {
	var buf [12]byte
	for i := range buf {
		buf[i] = 0xa5
	}
	want := specLTF8(v)
	n := ltf8.Encode(buf[:], v)
	if n != len(want) {
		rec.Failf("ltf8.Encode(%d) wrote %d bytes, spec says %d", v, n, len(want))
		return
	}
	if l := ltf8.Len(v); l != n {
		rec.Failf("ltf8.Len(%d)=%d but Encode wrote %d", v, l, n)
		return
	}
	if !bytes.Equal(buf[:n], want) {
		rec.Failf("ltf8.Encode(%d)=% x, spec % x", v, buf[:n], want)
		return
	}
	for i := n; i < len(buf); i++ {
		if buf[i] != 0xa5 {
			rec.Failf("ltf8.Encode(%d) wrote beyond the %d bytes it reported", v, n)
			return
		}
	}
	got, dn, ok := ltf8.Decode(buf[:n])
	if !ok || dn != n || got != v {
		rec.Failf("ltf8.Decode(Encode(%d)=% x) = (%d,%d,%v)", v, buf[:n], got, dn, ok)
	}
	// Len(v) bytes of room are enough
	exact := make([]byte, n)
	if m := ltf8.Encode(exact[:n:n], v); m != n || !bytes.Equal(exact, want) {
		rec.Failf("ltf8.Encode(%d) into a buffer of exactly Len=%d bytes wrote %d bytes: % x, spec % x", v, n, m, exact, want)
	}
}

func isPow2ish32(u uint32) bool {
	return u&(u-1) == 0 || (u+1)&u == 0 || (u-1)&(u-2) == 0
}
func isPow2ish64(u uint64) bool {
	return u&(u-1) == 0 || (u+1)&u == 0 || (u-1)&(u-2) == 0
}

func splitmix(x *uint64) uint64 {
	*x += 0x9e3779b97f4a7c15
	z := *x
	z = (z ^ (z >> 30)) * 0xbf58476d1ce4e5b9
	z = (z ^ (z >> 27)) * 0x94d049bb133111eb
	return z ^ (z >> 31)
}

// shrink32 clears bits while the value still fails.
func shrink32(v int32) int32 {
	u := uint32(v)
	for b := 31; b >= 0; b-- {
		c := u &^ (1 << uint(b))
		if c == u {
			continue
		}
		r := &h.Rec{}
		checkITF(int32(c), r)
		if r.Failed() {
			u = c
		}
	}
	return int32(u)
}

func shrink64(v int64) int64 {
	u := uint64(v)
	for b := 63; b >= 0; b-- {
		c := u &^ (1 << uint(b))
		if c == u {
			continue
		}
		r := &h.Rec{}
		checkLTF(int64(c), r)
		if r.Failed() {
			u = c
		}
	}
	return int64(u)
}

var itfBounds = []uint32{0, 0x80, 0x4000, 0x200000, 0x10000000, 0x80000000, 0xffffffff}

func itfEnum(ctx *h.Ctx) {
	var evals, nt uint64
	fail := func(v int32) {
		m := shrink32(v)
		r := &h.Rec{}
		checkITF(m, r)
		ctx.Violation(ICase{m}, r.Msg()+fmt.Sprintf(" (first seen at %d)", v))
	}
	try := func(v int32) bool {
		r := h.Rec{}
		checkITF(v, &r)
		evals++
		if itf8.Len(v) >= 2 && !isPow2ish32(uint32(v)) {
			nt++
		}
		if r.Failed() {
			fail(v)
			return false
		}
		return true
	}
	defer func() { ctx.Bulk(evals, nt) }()
	if ctx.Thorough() {
		// all 2^32 values, interleaved over shards in blocks of 2^16
		for blk := 0; blk < 1<<16; blk++ {
			if !ctx.Mine(blk) {
				continue
			}
			base := uint32(blk) << 16
			for i := uint32(0); i < 1<<16; i++ {
				if !try(int32(base | i)) {
					return
				}
			}
		}
		ctx.Sample(map[string]any{"enumerated": "every int32 value (2^32), each shard takes blocks of 65536"})
		ctx.MarkExhaustive()
		return
	}
	// quick: boundaries +-64 of every length class, then 2^24 distinct values
	// per run obtained from an odd-multiplier bijection of a counter (so the
	// interior bits are arbitrary and no value repeats across shards).
	if ctx.Shard == 0 {
		for _, b := range itfBounds {
			for d := -64; d <= 64; d++ {
				if !try(int32(b + uint32(d))) {
					return
				}
			}
		}
	}
	mul := uint32(h.Mix("c20", "itfmul"))*2 + 1
	add := uint32(h.Mix("c20", "itfadd"))
	total := uint32(1 << 24)
	for i := uint32(ctx.Shard); i < total; i += uint32(ctx.NShards) {
		// bias half of the values into the small classes by shifting
		v := i*mul + add
		if i&1 == 1 {
			v >>= (i >> 1) % 29
		}
		if !try(int32(v)) {
			return
		}
	}
	ctx.Sample(map[string]any{"boundaries": "every length-class bound +-64", "bijection_multiplier": mul, "offset": add, "count": total})
}

func ltfEnum(ctx *h.Ctx) {
	var evals, nt uint64
	try := func(v int64) bool {
		r := h.Rec{}
		checkLTF(v, &r)
		evals++
		if ltf8.Len(v) >= 2 && !isPow2ish64(uint64(v)) {
			nt++
		}
		if r.Failed() {
			m := shrink64(v)
			r2 := &h.Rec{}
			checkLTF(m, r2)
			ctx.Violation(LCase{m}, r2.Msg()+fmt.Sprintf(" (first seen at %d)", v))
			return false
		}
		return true
	}
	defer func() { ctx.Bulk(evals, nt) }()
	if ctx.Shard == 0 {
		for k := 0; k <= 9; k++ {
			var b uint64
			if k < 9 {
				b = 1 << (7 * uint(k))
			} // k==9: wraps around 0 / 2^64-1
			for d := -64; d <= 64; d++ {
				if !try(int64(b + uint64(d))) {
					return
				}
			}
		}
		for _, b := range []uint64{1 << 63, 1 << 32, 1 << 31} {
			for d := -8; d <= 8; d++ {
				if !try(int64(b + uint64(d))) {
					return
				}
			}
		}
	}
	// per length class: distinct values from an odd-multiplier bijection on
	// the class's bit width, shifted into the class.
	per := uint64(ctx.Pick(1<<20, 1<<25))
	mul := h.Mix("c20", "ltfmul")*2 + 1
	add := h.Mix("c20", "ltfadd")
	for k := 1; k <= 9; k++ {
		lo, width := uint64(0), uint(7)
		if k > 1 {
			lo = 1 << (7 * uint(k-1))
			width = 7 * uint(k)
		}
		if k == 9 {
			width = 64
		}
		mask := ^uint64(0)
		if width < 64 {
			mask = 1<<width - 1
		}
		n := per
		if width < 20 && n > 1<<width {
			n = 1 << width
		}
		for i := uint64(ctx.Shard); i < n; i += uint64(ctx.NShards) {
			v := (i*mul + add) & mask
			if v < lo {
				v |= lo // force into the class; may collide rarely, counted below as evaluation only
			}
			if !try(int64(v)) {
				return
			}
		}
	}
	ctx.Sample(map[string]any{"per_length_class": per, "bijection_multiplier": mul, "offset": add})
}

// ---- decoding arbitrary byte strings ----

type DCase struct {
	B    h.Hex
	Tail h.Hex // alternative bytes used after the announced length
}

func drawD(t *rapid.T) DCase {
	first := rapid.Byte().Draw(t, "first")
	if rapid.Bool().Draw(t, "classFirst") {
		first = rapid.SampledFrom([]byte{0x00, 0x7f, 0x80, 0xbf, 0xc0, 0xdf, 0xe0, 0xef, 0xf0, 0xf7, 0xf8, 0xfb, 0xfc, 0xfd, 0xfe, 0xff}).Draw(t, "cf")
	}
	n := rapid.IntRange(0, 11).Draw(t, "len")
	b := make([]byte, 0, n)
	if n > 0 {
		b = append(b, first)
		rest := rapid.SliceOfN(rapid.Byte(), n-1, n-1).Draw(t, "rest")
		b = append(b, rest...)
	}
	tail := rapid.SliceOfN(rapid.Byte(), 0, 6).Draw(t, "tail")
	return DCase{B: b, Tail: tail}
}

func runD(c DCase, rec *h.Rec) {
	b := c.B
	// ITF-8
	{
		v, n, ok := itf8.Decode(b)
		if len(b) == 0 {
			if v != 0 || n != 0 || ok {
				rec.Failf("itf8.Decode(empty) = (%d,%d,%v)", v, n, ok)
			}
		} else {
			want := specITF8Len(b[0])
			if n != want {
				rec.Failf("itf8.Decode(% x): n=%d, first byte announces %d", b, n, want)
			} else if ok != (len(b) >= want) {
				rec.Failf("itf8.Decode(% x): ok=%v with %d bytes available, %d announced", b, ok, len(b), want)
			} else if ok {
				if sv := specITF8Decode(b); sv != v {
					rec.Failf("itf8.Decode(% x)=%d, spec decode %d", b, v, sv)
				}
				// never reads beyond n: exact-length slice with zero capacity slack, and altered tail
				exact := append([]byte(nil), b[:n]...)
				v2, n2, ok2 := itf8.Decode(exact[:n:n])
				alt := append(append([]byte(nil), b[:n]...), c.Tail...)
				v3, n3, ok3 := itf8.Decode(alt)
				if v2 != v || n2 != n || !ok2 || v3 != v || n3 != n || !ok3 {
					rec.Failf("itf8.Decode(% x) depends on bytes beyond the announced length %d", b, n)
				}
				rec.NTIf(n >= 2)
			} else {
				rec.NTIf(len(b) >= 1)
				rec.Class("itf_short")
			}
		}
	}
	// LTF-8
	{
		v, n, ok := ltf8.Decode(b)
		if len(b) == 0 {
			if v != 0 || n != 0 || ok {
				rec.Failf("ltf8.Decode(empty) = (%d,%d,%v)", v, n, ok)
			}
			return
		}
		want := specLTF8Len(b[0])
		if n != want {
			rec.Failf("ltf8.Decode(% x): n=%d, first byte announces %d", b, n, want)
		} else if ok != (len(b) >= want) {
			rec.Failf("ltf8.Decode(% x): ok=%v with %d bytes available, %d announced", b, ok, len(b), want)
		} else if ok {
			if sv := specLTF8Decode(b); sv != v {
				rec.Failf("ltf8.Decode(% x)=%d, spec decode %d", b, v, sv)
			}
			exact := append([]byte(nil), b[:n]...)
			v2, n2, ok2 := ltf8.Decode(exact[:n:n])
			alt := append(append([]byte(nil), b[:n]...), c.Tail...)
			v3, n3, ok3 := ltf8.Decode(alt)
			if v2 != v || n2 != n || !ok2 || v3 != v || n3 != n || !ok3 {
				rec.Failf("ltf8.Decode(% x) depends on bytes beyond the announced length %d", b, n)
			}
			rec.Class(fmt.Sprintf("ltf_len%d", n))
		} else {
			rec.Class("ltf_short")
		}
	}
}

// rapid versions of the value round trips (shrinkable, bit-width stratified)
func drawI(t *rapid.T) ICase {
	w := rapid.IntRange(0, 32).Draw(t, "width")
	u := rapid.Uint32().Draw(t, "bits")
	if w < 32 {
		u &= 1<<uint(w) - 1
		if w > 0 && rapid.Bool().Draw(t, "top") {
			u |= 1 << uint(w-1)
		}
	}
	return ICase{int32(u)}
}

func drawL(t *rapid.T) LCase {
	w := rapid.IntRange(0, 64).Draw(t, "width")
	u := rapid.Uint64().Draw(t, "bits")
	if w < 64 {
		u &= 1<<uint(w) - 1
		if w > 0 && rapid.Bool().Draw(t, "top") {
			u |= 1 << uint(w-1)
		}
	}
	return LCase{int64(u)}
}

func TestProp(t *testing.T) {
	h.Main(t, "C20",
		h.Enum("itf8_values", itfEnum, func(c ICase, rec *h.Rec) { checkITF(c.V, rec) }),
		h.Enum("ltf8_values", ltfEnum, func(c LCase, rec *h.Rec) { checkLTF(c.V, rec) }),
		h.Rapid("itf8_rapid", h.Opt{Quick: 400000, Thorough: 4000000}, drawI, func(c ICase, rec *h.Rec) {
			checkITF(c.V, rec)
			rec.NTIf(itf8.Len(c.V) >= 2 && !isPow2ish32(uint32(c.V)))
			rec.Class(fmt.Sprintf("len%d", itf8.Len(c.V)))
		}),
		h.Rapid("ltf8_rapid", h.Opt{Quick: 400000, Thorough: 4000000}, drawL, func(c LCase, rec *h.Rec) {
			checkLTF(c.V, rec)
			rec.NTIf(ltf8.Len(c.V) >= 2 && !isPow2ish64(uint64(c.V)))
			rec.Class(fmt.Sprintf("len%d", ltf8.Len(c.V)))
		}),
		h.Rapid("decode_bytes", h.Opt{Quick: 600000, Thorough: 6000000}, drawD, runD),
		h.Rapid("cram_stream", h.Opt{Quick: 40000, Thorough: 600000}, drawS, runS),
	)
}
