package c20

import (
	"bytes"
	"fmt"
	"hash/crc32"
	"io"
	"reflect"
	"runtime"
	"sync"

	"github.com/biogo/hts/cram"
	"pgregory.net/rapid"

	"verif/internal/h"
)

// cram_stream: the CRAM stream readers (container and block headers) decode
// ITF-8/LTF-8 values by reading the first byte and then fetching the announced
// remainder. An io.Reader may return fewer bytes than asked for, so a valid
// stream must decode to the same field values however it is fragmented.

type SBlock struct {
	Typ       byte // 4 external data, 5 core data (raw method: payload is not interpreted)
	ContentID int32
	Data      h.Hex
}
type SCont struct {
	RefID, Start, Span, NRec int32
	RecCount, Bases          int64
	NBlocks                  int32
	Landmarks                []int32
	Blocks                   []SBlock
}
type SCase struct {
	Conts  []SCont
	Chunks []int // sizes returned by successive Read calls (cycled); every one >= 1
	Par    int   // number of goroutines decoding the stream at the same time (each with its own reader)
	Cut    int   // selects a truncation inside a multi-byte value of a container header
}

func specPutITF(b []byte, v int32) []byte { e, _ := specITF8(v); return append(b, e...) }
func specPutLTF(b []byte, v int64) []byte { return append(b, specLTF8(v)...) }
func le32(b []byte, v uint32) []byte      { return append(b, byte(v), byte(v>>8), byte(v>>16), byte(v>>24)) }

// spans lists [start,end) of the multi-byte ITF-8/LTF-8 values of container headers in the encoded stream.
func (c SCase) encode() []byte {
	b, _ := c.encodeSpans()
	return b
}

func (c SCase) encodeSpans() ([]byte, [][2]int) {
	var spans [][2]int
	out := append([]byte("CRAM\x03\x00"), make([]byte, 20)...)
	for _, ct := range c.Conts {
		var body []byte
		for _, bl := range ct.Blocks {
			b := []byte{0, bl.Typ}
			b = specPutITF(b, bl.ContentID)
			b = specPutITF(b, int32(len(bl.Data)))
			b = specPutITF(b, int32(len(bl.Data)))
			b = append(b, bl.Data...)
			b = le32(b, crc32.ChecksumIEEE(b))
			body = append(body, b...)
		}
		hd := le32(nil, uint32(len(body)))
		put := func(enc []byte) {
			if len(enc) >= 2 {
				spans = append(spans, [2]int{len(out) + len(hd), len(out) + len(hd) + len(enc)})
			}
			hd = append(hd, enc...)
		}
		itf := func(v int32) { e, _ := specITF8(v); put(e) }
		itf(ct.RefID)
		itf(ct.Start)
		itf(ct.Span)
		itf(ct.NRec)
		put(specLTF8(ct.RecCount))
		put(specLTF8(ct.Bases))
		itf(ct.NBlocks)
		itf(int32(len(ct.Landmarks)))
		for _, l := range ct.Landmarks {
			itf(l)
		}
		hd = le32(hd, crc32.ChecksumIEEE(hd))
		out = append(out, hd...)
		out = append(out, body...)
	}
	return out, spans
}

type fragReader struct {
	b      []byte
	chunks []int
	i      int
	short  int // Read calls that returned less than asked although more data was there
	yield  bool
}

func (f *fragReader) Read(p []byte) (int, error) {
	if len(f.b) == 0 {
		return 0, io.EOF
	}
	if len(p) == 0 {
		return 0, nil
	}
	n := len(p)
	if len(f.chunks) > 0 {
		if c := f.chunks[f.i%len(f.chunks)]; c < n {
			n = c
		}
		f.i++
	}
	if n > len(f.b) {
		n = len(f.b)
	}
	if n < len(p) && n < len(f.b)+0 {
		f.short++
	}
	copy(p, f.b[:n])
	f.b = f.b[n:]
	if f.yield {
		runtime.Gosched() // other streams get to run between the pieces of a value
	}
	return n, nil
}

func drawS(t *rapid.T) SCase {
	i32 := rapid.Custom(func(t *rapid.T) int32 {
		w := rapid.IntRange(0, 32).Draw(t, "w")
		u := rapid.Uint32().Draw(t, "bits")
		if w < 32 {
			u &= 1<<uint(w) - 1
		}
		return int32(u)
	})
	i64 := rapid.Custom(func(t *rapid.T) int64 {
		w := rapid.IntRange(0, 64).Draw(t, "w")
		u := rapid.Uint64().Draw(t, "bits")
		if w < 64 {
			u &= 1<<uint(w) - 1
		}
		return int64(u)
	})
	blk := rapid.Custom(func(t *rapid.T) SBlock {
		n := rapid.SampledFrom([]int{0, 1, 5, 127, 128, 200, 300}).Draw(t, "dlen")
		d := make([]byte, n)
		for i := range d {
			d[i] = byte(i*7 + n)
		}
		return SBlock{Typ: byte(rapid.IntRange(4, 5).Draw(t, "typ")), ContentID: i32.Draw(t, "cid"), Data: d}
	})
	cont := rapid.Custom(func(t *rapid.T) SCont {
		return SCont{
			RefID: i32.Draw(t, "refid"), Start: i32.Draw(t, "start"), Span: i32.Draw(t, "span"), NRec: i32.Draw(t, "nrec"),
			RecCount: i64.Draw(t, "reccount"), Bases: i64.Draw(t, "bases"), NBlocks: i32.Draw(t, "nblocks"),
			Landmarks: rapid.SliceOfN(i32, 0, 4).Draw(t, "landmarks"),
			Blocks:    rapid.SliceOfN(blk, 0, 3).Draw(t, "blocks"),
		}
	})
	return SCase{
		Conts:  rapid.SliceOfN(cont, 1, 3).Draw(t, "conts"),
		Chunks: rapid.SliceOfN(rapid.IntRange(1, 9), 0, 8).Draw(t, "chunks"),
		Par:    rapid.SampledFrom([]int{1, 1, 2, 4}).Draw(t, "par"),
		Cut:    rapid.IntRange(0, 1<<16).Draw(t, "cut"),
	}
}

func fieldInt(v reflect.Value, name string) int64 { return v.Elem().FieldByName(name).Int() }

func runS(c SCase, rec *h.Rec) {
	data, spans := c.encodeSpans()
	if c.Par > 1 {
		// independent streams decoded at the same time must not influence each other
		recs := make([]h.Rec, c.Par)
		var wg sync.WaitGroup
		for g := 0; g < c.Par; g++ {
			wg.Add(1)
			go func(g int) {
				defer wg.Done()
				h.Safe(&recs[g], "concurrent cram stream", func() { decodeS(c, data, true, &recs[g]) })
			}(g)
		}
		wg.Wait()
		for g := range recs {
			if recs[g].Failed() {
				rec.Failf("with %d streams decoded concurrently: %s", c.Par, recs[g].Msg())
				return
			}
		}
		rec.Class("concurrent_streams")
	}
	decodeS(c, data, false, rec)
	if rec.Failed() {
		return
	}
	// a stream that ends inside a multi-byte value: the announced remainder is not
	// available, which must be reported (never a clean end, never a decoded value)
	if len(spans) > 0 {
		sp := spans[c.Cut%len(spans)]
		cut := sp[0] + 1 + (c.Cut/len(spans))%(sp[1]-sp[0]-1)
		r, err := cram.NewReader(&fragReader{b: data[:cut], chunks: c.Chunks})
		if err == nil {
			n := 0
			for r.Next() {
				n++
			}
			if r.Err() == nil {
				rec.Failf("stream cut at byte %d, inside the %d-byte integer at [%d,%d) of a container header (%d of its bytes present): Next()=false after %d containers with Err()=nil, a clean end (fragments %v)", cut, sp[1]-sp[0], sp[0], sp[1], cut-sp[0], n, c.Chunks)
				return
			}
			rec.Class("cut_inside_value_reported")
		}
	}
}

func decodeS(c SCase, data []byte, yield bool, rec *h.Rec) {
	fr := &fragReader{b: data, chunks: c.Chunks, yield: yield}
	r, err := cram.NewReader(fr)
	if err != nil {
		rec.Failf("NewReader on a valid CRAM stream read in fragments %v: %v", c.Chunks, err)
		return
	}
	multi := false
	for ci, want := range c.Conts {
		if !r.Next() {
			rec.Failf("container %d of a valid CRAM stream read in fragments %v: Next()=false, Err=%v", ci, c.Chunks, r.Err())
			return
		}
		cv := reflect.ValueOf(r.Container())
		got := []int64{fieldInt(cv, "refID"), fieldInt(cv, "start"), fieldInt(cv, "span"), fieldInt(cv, "nRec"), fieldInt(cv, "recCount"), fieldInt(cv, "bases"), fieldInt(cv, "blocks")}
		exp := []int64{int64(want.RefID), int64(want.Start), int64(want.Span), int64(want.NRec), want.RecCount, want.Bases, int64(want.NBlocks)}
		for i := range got {
			if got[i] != exp[i] {
				rec.Failf("container %d field %d decoded as %d, written %d (fragments %v)", ci, i, got[i], exp[i], c.Chunks)
			}
			if exp[i] < 0 || exp[i] >= 0x80 {
				multi = true
			}
		}
		lm := cv.Elem().FieldByName("landmarks")
		if lm.Len() != len(want.Landmarks) {
			rec.Failf("container %d: %d landmarks decoded, %d written (fragments %v)", ci, lm.Len(), len(want.Landmarks), c.Chunks)
		} else {
			for i, l := range want.Landmarks {
				if lm.Index(i).Int() != int64(l) {
					rec.Failf("container %d landmark %d decoded as %d, written %d (fragments %v)", ci, i, lm.Index(i).Int(), l, c.Chunks)
				}
			}
		}
		ct := r.Container()
		for bi, wb := range want.Blocks {
			if !ct.Next() {
				rec.Failf("container %d block %d: Next()=false, Err=%v (fragments %v)", ci, bi, ct.Err(), c.Chunks)
				return
			}
			bv := reflect.ValueOf(ct.Block())
			if g := fieldInt(bv, "contentID"); g != int64(wb.ContentID) {
				rec.Failf("container %d block %d content id decoded as %d, written %d (fragments %v)", ci, bi, g, wb.ContentID, c.Chunks)
			}
			if g := fieldInt(bv, "rawSize"); g != int64(len(wb.Data)) {
				rec.Failf("container %d block %d raw size decoded as %d, written %d (fragments %v)", ci, bi, g, len(wb.Data), c.Chunks)
			}
			if g := bv.Elem().FieldByName("blockData").Bytes(); !bytes.Equal(g, wb.Data) {
				rec.Failf("container %d block %d data differs (fragments %v)", ci, bi, c.Chunks)
			}
		}
		if ct.Next() {
			rec.Failf("container %d yields a block that was not written (fragments %v)", ci, c.Chunks)
		} else if ct.Err() != nil {
			rec.Failf("container %d: error after the last block: %v (fragments %v)", ci, ct.Err(), c.Chunks)
		}
	}
	if r.Next() {
		rec.Failf("a container that was not written is reported (fragments %v)", c.Chunks)
	} else if r.Err() != nil {
		rec.Failf("error at the end of a valid CRAM stream: %v (fragments %v)", r.Err(), c.Chunks)
	}
	rec.NTIf(fr.short > 0 && multi)
	rec.ClassIf(fr.short > 0, "short_reads")
	rec.ClassIf(len(c.Chunks) == 0, "whole_reads")
	min := 99
	for _, k := range c.Chunks {
		if k < min {
			min = k
		}
	}
	rec.ClassIf(min <= 3, "fragment<=3")
	_ = fmt.Sprint
}
