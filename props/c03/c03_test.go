// C03: block caches are transparent: same reads with any cache, capacity and read-ahead.
package c03

import (
	"fmt"
	"sync"
	"sync/atomic"
	"testing"
	"time"

	"github.com/biogo/hts/bgzf"
	"github.com/biogo/hts/bgzf/cache"
	"pgregory.net/rapid"

	"verif/internal/bz"
	"verif/internal/h"
)

type Case struct {
	F      bz.FSpec
	RD     int
	Ops    []bz.ROp // additionally K="setcache": A encodes kind*100 + cap*2 + stats, kind 0 none 1 lru 2 fifo 3 random
	Delays []int
}

// meter is a neutral pass-through that counts hits and evictions for the
// non-triviality rule.
type meter struct {
	bgzf.Cache
	mu        sync.Mutex
	hits      int
	evictions int
	hitAfterE int
}

func (m *meter) Get(base int64) bgzf.Block {
	b := m.Cache.Get(base)
	if b != nil {
		m.mu.Lock()
		m.hits++
		if m.evictions > 0 {
			m.hitAfterE++
		}
		m.mu.Unlock()
	}
	return b
}
func (m *meter) Put(b bgzf.Block) (bgzf.Block, bool) {
	ev, ret := m.Cache.Put(b)
	if ret && ev != nil {
		m.mu.Lock()
		m.evictions++
		m.mu.Unlock()
	}
	return ev, ret
}

func mkCache(a int) (bgzf.Cache, string) {
	kind, cp, stats := a/100, (a%100)/2, a%2 == 1
	if cp < 1 {
		cp = 1
	}
	var c cache.Cache
	name := ""
	switch kind {
	case 1:
		c, name = cache.NewLRU(cp), "lru"
	case 2:
		c, name = cache.NewFIFO(cp), "fifo"
	case 3:
		c, name = cache.NewRandom(cp), "random"
	default:
		return nil, "none"
	}
	name = fmt.Sprintf("%s(%d)", name, cp)
	if stats {
		return &cache.StatsRecorder{Cache: c}, name + "+stats"
	}
	return c, name
}

// known finding: a cache attached again after having been detached (see known_findings.json)
var knownReattach = h.KnownRegion("C03", "cache-reattached")

func opGen() *rapid.Generator[bz.ROp] {
	return rapid.Custom(func(t *rapid.T) bz.ROp {
		if rapid.IntRange(0, 9).Draw(t, "setcache") == 0 {
			if !knownReattach && rapid.IntRange(0, 2).Draw(t, "again") == 0 {
				return bz.ROp{K: "setcache", A: 1000 + rapid.IntRange(0, 3).Draw(t, "which")}
			}
			kind := rapid.IntRange(0, 3).Draw(t, "kind")
			cp := rapid.SampledFrom([]int{1, 1, 1, 2, 2, 2, 3, 4, 6, 8, 16}).Draw(t, "cap")
			st := rapid.IntRange(0, 1).Draw(t, "stats")
			return bz.ROp{K: "setcache", A: kind*100 + cp*2 + st}
		}
		switch rapid.IntRange(0, 19).Draw(t, "extra") {
		case 0:
			return bz.ROp{K: "seekend"}
		case 1, 2:
			return bz.ROp{K: "settle", N: rapid.IntRange(0, 3).Draw(t, "ms")}
		}
		op := bz.ROpGen().Draw(t, "op")
		if op.K == "seek" && rapid.Bool().Draw(t, "blockStart") {
			op.O = 0
		}
		// revisit-heavy: half of the reads are "the rest of this block and a bit"
		if op.K == "read" && rapid.Bool().Draw(t, "wholeBlock") {
			op.N = rapid.SampledFrom([]int{64, 65, 130, 200}).Draw(t, "nb")
		}
		return op
	})
}

func draw(t *rapid.T) Case {
	c := Case{F: bz.FSpecGen(8).Draw(t, "file")}
	if rapid.Bool().Draw(t, "noEmpty") {
		// files without empty blocks make every revisit a data revisit
		for i, n := range c.F.Sizes {
			if n == 0 {
				c.F.Sizes[i] = 1 + i
			}
		}
	}
	c.RD = rapid.SampledFrom([]int{1, 1, 1, 2, 3, 4, 8, 0}).Draw(t, "rd")
	first := bz.ROp{K: "setcache", A: rapid.IntRange(1, 3).Draw(t, "kind0")*100 + rapid.SampledFrom([]int{1, 1, 1, 2, 2, 2, 3, 4, 8, 16}).Draw(t, "cap0")*2 + rapid.IntRange(0, 1).Draw(t, "stats0")}
	c.Ops = append([]bz.ROp{first}, rapid.SliceOfN(opGen(), 1, 50).Draw(t, "ops")...)
	if rapid.IntRange(0, 3).Draw(t, "delay") == 0 {
		c.Delays = rapid.SliceOfN(rapid.SampledFrom([]int{0, 0, 30, 200}), 1, 4).Draw(t, "delays")
	}
	return c
}

func run(c Case, rec *h.Rec) {
	f, err := c.F.Build()
	if err != nil {
		rec.Failf("building the file: %v", err)
		return
	}
	if len(f.Bytes) == 0 {
		rec.Skip("empty file")
		return
	}
	var cur atomic.Value
	cur.Store("NewReader")
	var msg string
	var st, st0 bz.RStats
	st.WantTrace, st0.WantTrace = true, true
	var meters []*meter
	var attached []bgzf.Cache
	kinds := map[string]bool{}
	ok := h.Call(15*time.Second, func() {
		src := bz.NewFaultReader(f.Bytes)
		src.Delays = c.Delays
		r, err := bgzf.NewReader(src, c.RD)
		if err != nil {
			msg = "NewReader: " + err.Error()
			return
		}
		hook := func(i int, op bz.ROp, r *bgzf.Reader) string {
			if op.K != "setcache" {
				return ""
			}
			if op.A >= 1000 {
				// attach again a cache that was attached earlier in this history
				// (it may still hold blocks from then)
				if len(attached) == 0 || (knownReattach && !h.Replaying()) {
					return ""
				}
				r.SetCache(attached[(op.A-1000)%len(attached)])
				kinds["reattached"] = true
				return ""
			}
			cc, name := mkCache(op.A)
			kinds[name] = true
			if cc == nil {
				r.SetCache(nil)
				return ""
			}
			if i%4 == 3 {
				// every fourth cache is attached without the neutral meter around it
				r.SetCache(cc)
				attached = append(attached, cc)
				return ""
			}
			m := &meter{Cache: cc}
			meters = append(meters, m)
			r.SetCache(m)
			attached = append(attached, m)
			return ""
		}
		msg = bz.RunHistory(r, f, c.Ops, hook, func(s string) { cur.Store(s) }, &st)
		if msg != "" {
			return
		}
		cur.Store("Close")
		if err := r.Close(); err != nil {
			msg = "Close: " + err.Error()
		}
	})
	if !ok {
		dl, where := h.Deadlocked("hts/bgzf")
		rec.Failf("%v did not return within 15s with a cache attached (deadlock signature: %v) [rd=%d, blocks=%v]\n%s", cur.Load(), dl, c.RD, c.F.Sizes, where)
		return
	}
	if msg != "" {
		rec.Failf("with cache: %s [rd=%d, blocks=%v marker=%v caches=%v]", msg, c.RD, c.F.Sizes, c.F.Marker, keys(kinds))
		return
	}
	// the same history on an uncached reader: LastChunk and BlockLen identical op by op
	ok = h.Call(15*time.Second, func() {
		r, err := bgzf.NewReader(bz.NewFaultReader(f.Bytes), c.RD)
		if err != nil {
			msg = "NewReader: " + err.Error()
			return
		}
		msg = bz.RunHistory(r, f, c.Ops, nil, nil, &st0)
		r.Close()
	})
	if !ok || msg != "" {
		rec.Skip("the uncached run of the history does not follow the model (C02's business): " + msg)
		return
	}
	if len(st.Trace) != len(st0.Trace) {
		rec.Failf("trace lengths differ %d vs %d", len(st.Trace), len(st0.Trace))
		return
	}
	for i := range st.Trace {
		if st.Trace[i] != st0.Trace[i] {
			rec.Failf("observation %d of the history: with cache = %s, uncached reader = %s [rd=%d blocks=%v]", i, st.Trace[i], st0.Trace[i], c.RD, c.F.Sizes)
			return
		}
	}
	hits, hitAfter, ev := 0, 0, 0
	for _, m := range meters {
		hits += m.hits
		hitAfter += m.hitAfterE
		ev += m.evictions
	}
	for k := range kinds {
		rec.Class("cache_" + k[:3])
	}
	rec.ClassIf(hits > 0, "cache_hit")
	rec.ClassIf(ev > 0, "eviction")
	rec.ClassIf(c.RD != 1, "read_ahead")
	rec.ClassIf(c.RD != 1 && hits > 0, "read_ahead_and_hit")
	rec.NTIf(hitAfter > 0)
}

func keys(m map[string]bool) []string {
	var out []string
	for k := range m {
		out = append(out, k)
	}
	return out
}

func TestProp(t *testing.T) {
	h.Main(t, "C03", h.Rapid("cache_transparent", h.Opt{Quick: 20000, Thorough: 600000}, draw, run))
}
