// C12: the writer emits whole blocks in write order; Flush+Wait makes written data durable.
package c12

import (
	"bytes"
	"fmt"
	"io"
	"sync"
	"testing"
	"time"

	"github.com/biogo/hts/bam"
	"github.com/biogo/hts/bgzf"
	"github.com/biogo/hts/sam"
	"pgregory.net/rapid"

	"verif/internal/bz"
	"verif/internal/h"
)

type Case struct {
	S bz.Script
}

func draw(t *rapid.T) Case {
	s := bz.ScriptGen(12, 2).Draw(t, "script")
	s.WC = rapid.SampledFrom([]int{1, 2, 3, 4, 8}).Draw(t, "wc")
	s.NoClose = rapid.IntRange(0, 5).Draw(t, "noclose") == 0
	// heavy block then tiny blocks: later compressors finish first
	if rapid.IntRange(0, 2).Draw(t, "heavyThenTiny") == 0 {
		ops := []bz.WOp{{K: "write", P: bz.Pay{Kind: 2, Seed: 7, Len: bz.BlockSize}}}
		n := rapid.IntRange(2, 6).Draw(t, "tiny")
		for i := 0; i < n; i++ {
			ops = append(ops, bz.WOp{K: "write", P: bz.Pay{Kind: 0, Seed: uint64(i), Len: rapid.IntRange(1, 40).Draw(t, "tl")}}, bz.WOp{K: "flush"})
		}
		if rapid.Bool().Draw(t, "thenWait") {
			ops = append(ops, bz.WOp{K: "wait"})
		}
		s.Ops = append(ops, s.Ops...)
		s.Level = rapid.SampledFrom([]int{9, 6, -1}).Draw(t, "lvl")
	}
	return Case{S: s}
}

// decodePrefix parses out[:n] into complete members and returns the payload.
func decodePrefix(out []byte, n int) ([]byte, error) {
	ms, err := bz.Walk(out[:n])
	if err != nil {
		return nil, err
	}
	return bz.Concat(ms), nil
}

func run(c Case, rec *h.Rec) {
	o := c.S.Run(20 * time.Second)
	if o.Hung != "" {
		dl, where := h.Deadlocked("hts/bgzf")
		rec.Failf("writer call %s did not return (deadlock signature: %v)\n%s", o.Hung, dl, where)
		return
	}
	if len(o.Errs) > 0 {
		rec.Failf("writer: %s", o.Errs[0])
		return
	}
	if o.Overflow {
		rec.Failf("ErrBlockOverflow with the default header")
		return
	}
	// parse the final output once; every cut must fall on a member boundary
	ms, err := bz.Walk(o.Out)
	if err != nil {
		rec.Failf("final output: %v", err)
		return
	}
	bound := map[int]int{0: 0} // stream offset of a member end -> payload bytes before it
	acc := 0
	for _, m := range ms {
		acc += len(m.Data)
		bound[m.Off+m.Size] = acc
	}
	all := bz.Concat(ms)
	if !bytes.HasPrefix(o.Model, all) {
		rec.Failf("delivered blocks decode to %d bytes that are not a prefix of the %d bytes written (first difference at %d): blocks out of order or altered", len(all), len(o.Model), firstDiff(all, o.Model))
		return
	}
	for i, cut := range o.Cuts {
		dec, ok := bound[cut]
		if !ok {
			rec.Failf("after underlying Write #%d returned, %d bytes had been delivered, which is not a whole number of blocks", i, cut)
			return
		}
		if dec > o.CutIssued[i] {
			rec.Failf("after underlying Write #%d the sink holds %d bytes of data but only %d had been written", i, dec, o.CutIssued[i])
			return
		}
	}
	for _, s := range o.Snaps {
		dec, ok := bound[s.OutLen]
		if !ok {
			rec.Failf("after %s (op %d) the sink holds %d bytes, not a whole number of blocks", s.What, s.Op, s.OutLen)
			return
		}
		if dec > s.Issued {
			rec.Failf("after %s (op %d) the sink holds %d bytes of data but only %d had been written", s.What, s.Op, dec, s.Issued)
			return
		}
		if s.MustHave >= 0 && dec < s.MustHave {
			rec.Failf("after %s (op %d) returned nil the sink holds only %d of the %d bytes written before the Flush", s.What, s.Op, dec, s.MustHave)
			return
		}
	}
	if !c.S.NoClose && o.CloseErr == nil && len(all) != len(o.Model) {
		rec.Failf("after Close the sink holds %d of %d bytes", len(all), len(o.Model))
		return
	}
	flushWait := false
	sawFlush := false
	for _, op := range c.S.Ops {
		if op.K == "flush" {
			sawFlush = true
		}
		if op.K == "wait" && sawFlush {
			flushWait = true
		}
	}
	data := 0
	for _, m := range ms {
		if len(m.Data) > 0 {
			data++
		}
	}
	rec.ClassIf(flushWait, "flush_then_wait_before_end")
	rec.ClassIf(len(c.S.Delays) > 0, "delayed_sink")
	rec.ClassIf(c.S.NoClose, "not_closed")
	rec.NTIf(c.S.WC > 1 && data >= 3 && flushWait)
}

func firstDiff(a, b []byte) int {
	for i := range a {
		if i >= len(b) || a[i] != b[i] {
			return i
		}
	}
	return len(a)
}

// ---- bam.NewWriter: the header is in the sink when the constructor returns ----

type BCase struct {
	NRefs   int
	TextLen int // approximate size of the @CO padding (pushes the header over one or more blocks)
	WC      int
	Level   int
	Records int
	Delays  []int
	OwnBGZF bool // bam.NewWriter is handed a *bgzf.Writer made by the caller instead of the sink itself
}

func drawB(t *rapid.T) BCase {
	return BCase{
		OwnBGZF: rapid.Bool().Draw(t, "ownbgzf"),
		NRefs:   rapid.IntRange(0, 40).Draw(t, "nrefs"),
		TextLen: rapid.SampledFrom([]int{0, 10, 1000, 65000, 65280, 70000, 140000}).Draw(t, "text"),
		WC:      rapid.SampledFrom([]int{1, 2, 4, 8}).Draw(t, "wc"),
		Level:   rapid.IntRange(-1, 9).Draw(t, "level"),
		Records: rapid.IntRange(0, 5).Draw(t, "recs"),
		Delays:  rapid.SliceOfN(rapid.SampledFrom([]int{0, 50, 300}), 0, 3).Draw(t, "delays"),
	}
}

type snapWriter struct {
	mu sync.Mutex
	bz.RecWriter
}

func runB(c BCase, rec *h.Rec) {
	var refs []*sam.Reference
	for i := 0; i < c.NRefs; i++ {
		r, err := sam.NewReference(fmt.Sprintf("ref%d", i), "", "", 1000+i, nil, nil)
		if err != nil {
			rec.Failf("NewReference: %v", err)
			return
		}
		refs = append(refs, r)
	}
	hd, err := sam.NewHeader(nil, refs)
	if err != nil {
		rec.Failf("NewHeader: %v", err)
		return
	}
	hd.Version = "1.6"
	for n := 0; n < c.TextLen; n += 200 {
		hd.Comments = append(hd.Comments, fmt.Sprintf("%0200d", n))
	}
	want, err := hd.MarshalBinary()
	if err != nil {
		rec.Failf("MarshalBinary: %v", err)
		return
	}
	sink := bz.NewRecWriter()
	sink.Delays = c.Delays
	var bw *bam.Writer
	var dst io.Writer = sink
	if c.OwnBGZF {
		bg, err := bgzf.NewWriterLevel(sink, c.Level, c.WC)
		if err != nil {
			rec.Failf("bgzf.NewWriterLevel: %v", err)
			return
		}
		dst = bg
	}
	if !h.Call(20*time.Second, func() { bw, err = bam.NewWriterLevel(dst, hd, c.Level, c.WC) }) {
		rec.Failf("bam.NewWriterLevel did not return")
		return
	}
	if err != nil {
		rec.Failf("bam.NewWriterLevel: %v", err)
		return
	}
	out := sink.Bytes()
	ms, werr := bz.Walk(out)
	if werr != nil {
		rec.Failf("sink after bam.NewWriter returned: %v", werr)
		return
	}
	if got := bz.Concat(ms); !bytes.Equal(got, want) {
		rec.Failf("after bam.NewWriter returned the sink decodes to %d bytes, the BAM header is %d bytes (first difference at %d)", len(got), len(want), firstDiff(got, want))
		return
	}
	// records, then close: everything is there, in order
	model := append([]byte(nil), want...)
	for i := 0; i < c.Records; i++ {
		r := &sam.Record{Name: fmt.Sprintf("r%d", i), Pos: -1, MatePos: -1, Flags: sam.Unmapped, Seq: sam.NewSeq(bytes.Repeat([]byte("ACGT"), 10+i))}
		if err := bw.Write(r); err != nil {
			rec.Failf("bam Write: %v", err)
			return
		}
	}
	var cerr error
	if !h.Call(20*time.Second, func() { cerr = bw.Close() }) {
		rec.Failf("bam.Writer.Close did not return")
		return
	}
	if cerr != nil {
		rec.Failf("bam.Writer.Close: %v", cerr)
		return
	}
	ms, werr = bz.Walk(sink.Bytes())
	if werr != nil {
		rec.Failf("sink after Close: %v", werr)
		return
	}
	got := bz.Concat(ms)
	if !bytes.HasPrefix(got, model) {
		rec.Failf("closed BAM stream does not start with the header bytes")
		return
	}
	// Close implies that everything written is with the sink: all records, then the marker
	closed := sink.Bytes()
	if !bz.HasMarker(closed) {
		rec.Failf("after bam.Writer.Close returned nil the sink does not end with the EOF marker (destination is a caller's bgzf.Writer: %v)", c.OwnBGZF)
		return
	}
	br, err := bam.NewReader(bytes.NewReader(closed), 1)
	if err != nil {
		rec.Failf("reading the closed stream back: %v", err)
		return
	}
	n := 0
	for {
		r, err := br.Read()
		if err == io.EOF {
			break
		}
		if err != nil {
			rec.Failf("reading the closed stream back: record %d: %v", n, err)
			return
		}
		if r.Name != fmt.Sprintf("r%d", n) {
			rec.Failf("record %d of the closed stream is %q", n, r.Name)
			return
		}
		n++
	}
	br.Close()
	if n != c.Records {
		rec.Failf("after bam.Writer.Close returned nil the sink holds %d of the %d records written (destination is a caller's bgzf.Writer: %v)", n, c.Records, c.OwnBGZF)
		return
	}
	rec.ClassIf(c.OwnBGZF, "destination_is_a_bgzf_writer")
	rec.ClassIf(len(want) > bz.BlockSize, "header_spans_blocks")
	rec.NTIf(c.WC > 1 && len(want) > bz.BlockSize)
}

// ---- a failing sink: what was delivered before the failure is still whole blocks in write order ----

type FCase struct {
	S bz.Script
	K int // the underlying Write that fails (mod the number of writes of the fault-free run)
}

func drawF(t *rapid.T) FCase {
	s := bz.ScriptGen(10, 2).Draw(t, "script")
	s.WC = rapid.SampledFrom([]int{1, 2, 4, 8}).Draw(t, "wc")
	return FCase{S: s, K: rapid.IntRange(0, 12).Draw(t, "k")}
}

func runF(c FCase, rec *h.Rec) {
	dry := c.S.Run(20 * time.Second)
	if dry.Hung != "" || len(dry.Errs) > 0 || len(dry.Cuts) == 0 {
		rec.Skip("fault-free run unusable")
		return
	}
	s := c.S
	k := c.K % len(dry.Cuts)
	s.Fault = &bz.Fault{K: k}
	o := s.Run(20 * time.Second)
	if o.Hung != "" {
		rec.Skip("call did not return under a fault (C09's business): " + o.Hung)
		return
	}
	ms, err := bz.Walk(o.Out)
	if err != nil {
		rec.Failf("underlying Write #%d failed (nothing delivered by it); the %d bytes delivered by the other writes are not whole blocks: %v", k, len(o.Out), err)
		return
	}
	got := bz.Concat(ms)
	if !bytes.HasPrefix(o.Model, got) {
		rec.Failf("underlying Write #%d of %d failed; the sink then holds blocks that decode to %d bytes which are not a prefix of the %d bytes written (first difference at %d): a later block was delivered after the failed one", k, len(dry.Cuts), len(got), len(o.Model), firstDiff(got, o.Model))
		return
	}
	// a nil from Wait (after Flush) or from Close is a durability claim, also when
	// the sink has failed: the sink must then hold everything written before
	bound := map[int]int{0: 0}
	acc := 0
	for _, m := range ms {
		acc += len(m.Data)
		bound[m.Off+m.Size] = acc
	}
	for _, sn := range o.Snaps {
		if sn.MustHave < 0 {
			continue
		}
		dec, ok := bound[sn.OutLen]
		if !ok {
			rec.Failf("underlying Write #%d failed; after %s (op %d) the sink holds %d bytes, not a whole number of blocks", k, sn.What, sn.Op, sn.OutLen)
			return
		}
		if dec < sn.MustHave {
			rec.Failf("underlying Write #%d of %d failed, yet %s (op %d) returned nil while the sink holds only %d of the %d bytes written before it", k, len(dry.Cuts), sn.What, sn.Op, dec, sn.MustHave)
			return
		}
		rec.Class("nil_after_failed_write_was_justified")
	}
	// a writer that failed must not leave anything behind for the next one: the
	// same script on a healthy sink gives the bytes it gave before the failure
	again := c.S
	again.Delays = nil
	after := again.Run(20 * time.Second)
	if after.Hung != "" || len(after.Errs) > 0 {
		rec.Failf("the script on a healthy sink, run after another writer's sink had failed: %v %v", after.Hung, after.Errs)
		return
	}
	if ms2, err := bz.Walk(after.Out); err != nil || !bytes.Equal(bz.Concat(ms2), after.Model) {
		rec.Failf("a writer on a healthy sink, created after another writer's underlying Write #%d had failed, delivered %d bytes that do not decode to the %d bytes written to it (walker: %v)", k, len(after.Out), len(after.Model), err)
		return
	}
	rec.NTIf(k < len(dry.Cuts)-1 && c.S.WC > 1)
}

func TestProp(t *testing.T) {
	h.Main(t, "C12",
		h.Rapid("ordered_under_sink_failure", h.Opt{Quick: 1500, Thorough: 30000}, drawF, runF),
		h.Rapid("ordered_durable", h.Opt{Quick: 3000, Thorough: 60000}, draw, run),
		h.Rapid("bam_header_durable", h.Opt{Quick: 1500, Thorough: 20000}, drawB, runB),
	)
}
