// C04: index queries are complete: every overlapping record lies in a returned chunk (BAI, CSI, tabix).
package c04

import (
	"bytes"
	"fmt"
	"io"
	"testing"

	"github.com/biogo/hts/bam"
	"github.com/biogo/hts/bgzf"
	"github.com/biogo/hts/sam"
	"pgregory.net/rapid"

	"verif/internal/h"
	"verif/internal/ix"
)

type Case struct {
	Kind string // bai csi tabix
	S    ix.Spec
}

func draw(t *rapid.T) Case {
	k := rapid.SampledFrom([]string{"bai", "bai", "csi", "csi", "tabix"}).Draw(t, "kind")
	return Case{Kind: k, S: ix.SpecGen(k == "csi", 12).Draw(t, "spec")}
}

func build(c Case, layout []bgzf.Chunk) (ix.Querier, error) {
	switch c.Kind {
	case "bai":
		return ix.BuildBAI(c.S, layout)
	case "csi":
		return ix.BuildCSI(c.S, layout, 2, nil)
	}
	return ix.BuildTBX(c.S, layout)
}

func reread(c Case, q ix.Querier, data []byte) (ix.Querier, error) {
	switch x := q.(type) {
	case *ix.BAI:
		return ix.ReadBAI(data, x.Refs)
	case *ix.CSI:
		return ix.ReadCSI(data)
	case *ix.TBX:
		return ix.ReadTBX(data, x.Names)
	}
	return nil, fmt.Errorf("unknown kind")
}

// complete checks every query of qs against the brute-force oracle.
func complete(c Case, q ix.Querier, layout []bgzf.Chunk, qs []ix.Query, stage string, rec *h.Rec) bool {
	var kept []keptAnswer
	for _, qu := range qs {
		var ans []bgzf.Chunk
		var err error
		h.Safe(rec, fmt.Sprintf("%s Chunks(%+v) %s", c.Kind, qu, stage), func() { ans, err = q.Chunks(qu) })
		if rec.Failed() {
			return false
		}
		if err != nil || len(ans) == 0 {
			if c.S.AnyOverlap(qu) {
				i := c.S.Missing(qu, layout, nil)
				rec.Failf("%s %s: Chunks(ref %d, [%d,%d)) returned %d chunks and error %v, but record %d = %+v overlaps the query", c.Kind, stage, qu.Ref, qu.Beg, qu.End, len(ans), err, i, c.S.Recs[i])
				return false
			}
			continue
		}
		if i := c.S.Missing(qu, layout, ans); i >= 0 {
			rec.Failf("%s %s: Chunks(ref %d, [%d,%d)) = %v does not cover record %d = %+v stored at %+v", c.Kind, stage, qu.Ref, qu.Beg, qu.End, ans, i, c.S.Recs[i], layout[i])
			return false
		}
		kept = append(kept, keptAnswer{qu, ans})
	}
	// an answer belongs to the caller: it is still right after later queries
	for _, k := range kept {
		if i := c.S.Missing(k.qu, layout, k.ans); i >= 0 {
			rec.Failf("%s %s: the answer to Chunks(ref %d, [%d,%d)) covered its records when it was returned, but after later queries it reads %v and no longer covers record %d = %+v", c.Kind, stage, k.qu.Ref, k.qu.Beg, k.qu.End, k.ans, i, c.S.Recs[i])
			return false
		}
	}
	return true
}

type keptAnswer struct {
	qu  ix.Query
	ans []bgzf.Chunk
}

func run(c Case, rec *h.Rec) {
	layout := c.S.Layout()
	var q ix.Querier
	var err error
	h.Safe(rec, c.Kind+" Add", func() { q, err = build(c, layout) })
	if rec.Failed() {
		return
	}
	if err != nil {
		rec.Failf("%s: adding records in sorted order within the indexable range failed: %v", c.Kind, err)
		return
	}
	qs := c.S.Queries(48)
	if !complete(c, q, layout, qs, "as built", rec) {
		return
	}
	data, err := q.Write()
	if err != nil {
		rec.Failf("%s: writing the index: %v", c.Kind, err)
		return
	}
	hasPlaced := false
	for _, r := range c.S.Recs {
		hasPlaced = hasPlaced || r.Ref >= 0
	}
	if hasPlaced {
		q2, err := reread(c, q, data)
		if err != nil {
			rec.Failf("%s: reading the written index back: %v", c.Kind, err)
			return
		}
		if !complete(c, q2, layout, qs, "after write/read", rec) {
			return
		}
		for si, st := range ix.Strategies {
			// two of the six strategies per case (all of them over the run)
			if pick := (len(c.S.Recs) + c.S.NRefs) % 3; si%3 != pick {
				continue
			}
			q3, err := reread(c, q, data)
			if err != nil {
				rec.Failf("%s: reading the written index back: %v", c.Kind, err)
				return
			}
			h.Safe(rec, "MergeChunks("+st.Name+")", func() { q3.MergeChunks(st.S) })
			if rec.Failed() {
				return
			}
			if !complete(c, q3, layout, qs, "after MergeChunks("+st.Name+")", rec) {
				return
			}
		}
	}
	tile := 1 << uint(c.S.MinShift)
	straddle := false
	for _, r := range c.S.Recs {
		if r.Ref >= 0 && r.Start/tile != (r.End-1)/tile {
			straddle = true
		}
	}
	rec.Class(c.Kind)
	rec.ClassIf(straddle, "record_straddles_tile")
	rec.ClassIf(hasPlaced, "has_placed_records")
	rec.NTIf(straddle && hasPlaced)
}

// ---- real files: the chunks an index returns, iterated, yield the overlapping records ----

type RCase struct {
	S  ix.Spec
	WC int
}

func drawR(t *rapid.T) RCase {
	s := ix.SpecGen(false, 8).Draw(t, "spec")
	return RCase{S: s, WC: rapid.SampledFrom([]int{1, 2}).Draw(t, "wc")}
}

func runR(c RCase, rec *h.Rec) {
	hd, err := ix.Header(c.S.NRefs)
	if err != nil {
		rec.Failf("header: %v", err)
		return
	}
	var buf bytes.Buffer
	w, err := bam.NewWriter(&buf, hd, c.WC)
	if err != nil {
		rec.Failf("NewWriter: %v", err)
		return
	}
	for i, r := range c.S.Recs {
		sr := ix.SamRecord(r, hd, i)
		// pad with sequence so that records spread over several BGZF blocks
		if r.Step < 0 {
			sr.Seq = sam.NewSeq(bytes.Repeat([]byte("ACGT"), 9000))
		}
		if err := w.Write(sr); err != nil {
			rec.Failf("Write: %v", err)
			return
		}
	}
	if err := w.Close(); err != nil {
		rec.Failf("Close: %v", err)
		return
	}
	br, err := bam.NewReader(bytes.NewReader(buf.Bytes()), 1)
	if err != nil {
		rec.Failf("NewReader: %v", err)
		return
	}
	defer br.Close()
	idx := &bam.Index{}
	var layout []bgzf.Chunk
	for i := range c.S.Recs {
		r, err := br.Read()
		if err != nil {
			rec.Failf("Read %d: %v", i, err)
			return
		}
		layout = append(layout, br.LastChunk())
		var aerr error
		h.Safe(rec, "Index.Add", func() { aerr = idx.Add(r, br.LastChunk()) })
		if rec.Failed() {
			return
		}
		if aerr != nil {
			rec.Failf("Add(record %d %+v): %v", i, c.S.Recs[i], aerr)
			return
		}
	}
	refs := br.Header().Refs()
	for _, qu := range c.S.Queries(30) {
		var chunks []bgzf.Chunk
		var cerr error
		h.Safe(rec, "Chunks", func() { chunks, cerr = idx.Chunks(refs[qu.Ref], qu.Beg, qu.End) })
		if rec.Failed() {
			return
		}
		got := map[string]bool{}
		if cerr == nil && len(chunks) > 0 {
			it, err := bam.NewIterator(br, chunks)
			if err != nil {
				rec.Failf("NewIterator(%v): %v", chunks, err)
				return
			}
			n := 0
			for it.Next() {
				got[it.Record().Name] = true
				if n++; n > 10*len(c.S.Recs)+10 {
					rec.Failf("iterator over %v does not stop", chunks)
					return
				}
			}
			if err := it.Close(); err != nil && err != io.EOF {
				rec.Failf("iterating %v: %v", chunks, err)
				return
			}
		}
		for i, r := range c.S.Recs {
			if r.Ref == qu.Ref && r.Start < qu.End && r.End > qu.Beg && !got[fmt.Sprintf("r%d", i)] {
				rec.Failf("query ref %d [%d,%d): record %d = %+v (file chunk %+v) overlaps but iterating the returned chunks %v (err %v) does not yield it", qu.Ref, qu.Beg, qu.End, i, r, layout[i], chunks, cerr)
				return
			}
		}
	}
	rec.NTIf(len(c.S.Recs) >= 3)
}

func TestProp(t *testing.T) {
	h.Main(t, "C04",
		h.Rapid("complete_synthetic_layout", h.Opt{Quick: 12000, Thorough: 600000}, draw, run),
		h.Rapid("complete_real_bam", h.Opt{Quick: 800, Thorough: 40000}, drawR, runR),
	)
}
