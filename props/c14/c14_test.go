// C14: the cache implementations honour the Cache contract, sequentially and concurrently.
package c14

import (
	"fmt"
	"runtime"
	"sort"
	"strings"
	"sync"
	"sync/atomic"
	"testing"
	"time"

	"github.com/anishathalye/porcupine"
	"github.com/biogo/hts/bgzf"
	"github.com/biogo/hts/bgzf/cache"
	"pgregory.net/rapid"

	"verif/internal/h"
)

type Op struct {
	K    string // putfresh putowned get resize drop free recycle
	Base int    // base index (putfresh, get, recycle target)
	Used bool   // putfresh, recycle
	N    int    // resize/drop/free argument
	Idx  int    // putowned/recycle: index into the owned list (mod len)
}

type Case struct {
	Kind  string // lru fifo random
	Cap   int
	Stats bool // wrap Get/Put/Peek in a StatsRecorder
	Ops   []Op
}

const nBases = 6

func fileBase(i int) int64 { return int64(i+1) * 100000 }

// ent is the harness' view of one Block instance.
type ent struct {
	blk      bgzf.Block
	id       int
	base     int64
	used     bool
	next     int64
	seq      int  // order of retention
	held     bool // the model believes the cache holds it
	shared   bool // returned by Get but still mapped by the cache
	licensed bool // the harness may overwrite it (fresh, or handed back by Put, or dropped)
}

type world struct {
	kind    string
	c       cache.Cache
	front   bgzf.Cache // c or a StatsRecorder around it
	sr      *cache.StatsRecorder
	cap     int
	held    map[int64]*ent
	owned   []*ent
	nextID  int
	nblocks int
	seq     int
	rec     *h.Rec
	cur     *atomic.Value
	evicted bool
	revisit bool
	gone    map[int64]bool // bases that were put and later evicted/removed/recycled
	// expected statistics
	gets, misses, puts, retains, evictions int
}

func newCache(kind string, n int) cache.Cache {
	switch kind {
	case "lru":
		return cache.NewLRU(n)
	case "fifo":
		return cache.NewFIFO(n)
	}
	return cache.NewRandom(n)
}

// Block values are 64 KiB each; they are pooled across cases (every case
// starts with a new cache, so a pooled block is never known to it).
var pool []bgzf.Block

func pooled(i int, base, size int64, used bool, data []byte) bgzf.Block {
	for len(pool) <= i {
		pool = append(pool, bgzf.VerifNewBlock(0, 1, false, nil))
	}
	bgzf.VerifRecycle(pool[i], base, size, used, data)
	return pool[i]
}

func (w *world) fresh(base int, used bool) *ent {
	w.nextID++
	e := &ent{id: w.nextID, base: fileBase(base), used: used, licensed: true}
	size := int64(60 + e.id)
	e.next = e.base + size
	e.blk = pooled(w.nblocks, e.base, size, used, []byte{byte(e.id)})
	w.nblocks++
	return e
}

func (w *world) recycle(e *ent, base int, used bool) {
	w.nextID++
	e.id = w.nextID
	e.base = fileBase(base)
	e.used = used
	size := int64(60 + e.id)
	e.next = e.base + size
	bgzf.VerifRecycle(e.blk, e.base, size, used, []byte{byte(e.id)})
}

func (w *world) entOf(b bgzf.Block) *ent {
	for _, e := range w.held {
		if e.blk == b {
			return e
		}
	}
	for _, e := range w.owned {
		if e.blk == b {
			return e
		}
	}
	return nil
}

func (w *world) own(e *ent) {
	for _, o := range w.owned {
		if o == e {
			return
		}
	}
	w.owned = append(w.owned, e)
}

func (w *world) disown(e *ent) {
	for i, o := range w.owned {
		if o == e {
			w.owned = append(w.owned[:i], w.owned[i+1:]...)
			return
		}
	}
}

const caseTimeout = 5 * time.Second

// guarded notes which call is in flight; the whole history runs under one
// watchdog (see run), which reports this label if the history never returns.
func (w *world) guarded(what string, f func()) bool {
	w.cur.Store(what)
	f()
	return true
}

// scan compares Len/Cap/Peek for every base with the model.
func (w *world) scan(after string) bool {
	var n, cp int
	if !w.guarded("Len/Cap after "+after, func() { n, cp = w.c.Len(), w.c.Cap() }) {
		return false
	}
	if cp != w.cap {
		w.rec.Failf("after %s: Cap()=%d, want %d", after, cp, w.cap)
		return false
	}
	if n > cp {
		w.rec.Failf("after %s: Len()=%d exceeds Cap()=%d", after, n, cp)
		return false
	}
	count := 0
	for i := 0; i < nBases; i++ {
		base := fileBase(i)
		var ex bool
		var next int64
		if !w.guarded("Peek after "+after, func() { ex, next = w.front.Peek(base) }) {
			return false
		}
		e := w.held[base]
		if ex {
			count++
			switch {
			case e == nil:
				w.rec.Failf("after %s: Peek(%d) reports a block although the cache holds none for that base (stale mapping)", after, base)
				return false
			case e.base != base:
				w.rec.Failf("after %s: Peek(%d) is answered from a block whose base is now %d: the cache still maps a block it handed back through Put (as evicted / not retained) and that was then overwritten", after, base, e.base)
				return false
			case next != e.next:
				w.rec.Failf("after %s: Peek(%d) next=%d, the block held for that base has next base %d", after, base, next, e.next)
				return false
			}
		} else {
			if next != -1 {
				w.rec.Failf("after %s: Peek(%d)=(false,%d), want (false,-1)", after, base, next)
				return false
			}
			if e != nil {
				w.rec.Failf("after %s: the cache retained block %d for base %d and never gave it back, but Peek reports nothing", after, e.id, base)
				return false
			}
		}
	}
	if n != count {
		w.rec.Failf("after %s: Len()=%d but Peek finds %d blocks", after, n, count)
		return false
	}
	if n != len(w.held) {
		w.rec.Failf("after %s: Len()=%d, model holds %d", after, n, len(w.held))
		return false
	}
	return true
}

// evictionOK checks the choice of evicted/dropped blocks R out of the held set.
func (w *world) evictionOK(what string, removed []*ent, before []*ent) bool {
	if len(removed) == 0 {
		return true
	}
	var unused, usedBySeq []*ent
	for _, e := range before {
		if !e.used {
			unused = append(unused, e)
		} else {
			usedBySeq = append(usedBySeq, e)
		}
	}
	sort.Slice(usedBySeq, func(i, j int) bool { return usedBySeq[i].seq < usedBySeq[j].seq })
	nUnusedRemoved := 0
	for _, r := range removed {
		if !r.used {
			nUnusedRemoved++
		}
	}
	wantUnused := len(unused)
	if len(removed) < wantUnused {
		wantUnused = len(removed)
	}
	if nUnusedRemoved != wantUnused {
		w.rec.Failf("%s: %d block(s) left the cache, %d of them unused, although %d unused block(s) were held (unused blocks are to be evicted first)", what, len(removed), nUnusedRemoved, len(unused))
		return false
	}
	if w.kind == "random" {
		return true
	}
	nUsedRemoved := len(removed) - nUnusedRemoved
	oldest := map[*ent]bool{}
	for i := 0; i < nUsedRemoved && i < len(usedBySeq); i++ {
		oldest[usedBySeq[i]] = true
	}
	for _, r := range removed {
		if r.used && !oldest[r] {
			w.rec.Failf("%s (%s): used block %d (retained as #%d) left the cache while an older used block was kept", what, w.kind, r.id, r.seq)
			return false
		}
	}
	return true
}

func (w *world) heldList() []*ent {
	var l []*ent
	for _, e := range w.held {
		l = append(l, e)
	}
	sort.Slice(l, func(i, j int) bool { return l[i].seq < l[j].seq })
	return l
}

// reconcile looks at which held blocks disappeared (after Drop/Resize/Free).
func (w *world) reconcile(what string, wantRemoved int) bool {
	before := w.heldList()
	var removed []*ent
	for _, e := range before {
		var ex bool
		if !w.guarded("Peek after "+what, func() { ex, _ = w.front.Peek(e.base) }) {
			return false
		}
		if !ex {
			removed = append(removed, e)
		}
	}
	if len(removed) != wantRemoved {
		w.rec.Failf("%s with %d block(s) held: %d left the cache, want %d", what, len(before), len(removed), wantRemoved)
		return false
	}
	if !w.evictionOK(what, removed, before) {
		return false
	}
	for _, e := range removed {
		delete(w.held, e.base)
		e.held, e.shared, e.licensed = false, false, true
		w.gone[e.base] = true
		w.own(e)
		w.evicted = true
	}
	return true
}

func (w *world) put(e *ent, what string) bool {
	_, present := w.held[e.base]
	full := len(w.held) == w.cap
	var ev bgzf.Block
	var ret bool
	if !w.guarded(what, func() { ev, ret = w.front.Put(e.blk) }) {
		return false
	}
	w.puts++
	if ret {
		w.retains++
		if ev != nil {
			w.evictions++
		}
	}
	switch {
	case present:
		if ret {
			w.rec.Failf("%s: a block for base %d is already held, yet Put reports the new one retained", what, e.base)
			return false
		}
		switch {
		case ev == e.blk:
			e.licensed = true
		case ev == nil:
			// the cache neither keeps a second copy nor hands the block back;
			// if it is the very block it holds (returned earlier by a
			// non-removing Get) it stays shared and must not be overwritten.
			if w.held[e.base] != e {
				e.licensed = true
			}
		default:
			w.rec.Failf("%s: Put of a duplicate base returned a third block as evicted", what)
			return false
		}
	case full && !e.used:
		if ret || ev != e.blk {
			w.rec.Failf("%s: full cache must refuse an unused block and return it (got evicted==put:%v retained:%v)", what, ev == e.blk, ret)
			return false
		}
		e.licensed = true
	case full:
		if !ret {
			w.rec.Failf("%s: used block put into a full cache without that base was not retained", what)
			return false
		}
		if ev == nil {
			w.rec.Failf("%s: cache was full (%d/%d) but Put retained the block without evicting", what, len(w.held), w.cap)
			return false
		}
		d := w.entOf(ev)
		if d == nil || !d.held {
			w.rec.Failf("%s: Put evicted a block the cache did not hold", what)
			return false
		}
		if d.base != ev.Base() {
			w.rec.Failf("%s: evicted block has base %d, expected %d", what, ev.Base(), d.base)
			return false
		}
		if !w.evictionOK(what, []*ent{d}, w.heldList()) {
			return false
		}
		delete(w.held, d.base)
		d.held, d.shared, d.licensed = false, false, true
		w.gone[d.base] = true
		w.own(d)
		w.evicted = true
		w.retain(e)
	default:
		if !ret || ev != nil {
			w.rec.Failf("%s: cache has room (%d/%d) and no block for base %d, want (nil,true), got evicted!=nil:%v retained:%v", what, len(w.held), w.cap, e.base, ev != nil, ret)
			return false
		}
		w.retain(e)
	}
	return true
}

func (w *world) retain(e *ent) {
	w.seq++
	e.seq = w.seq
	e.held, e.shared, e.licensed = true, false, false
	w.held[e.base] = e
	w.disown(e)
}

func (w *world) get(baseIdx int) bool {
	base := fileBase(baseIdx)
	what := fmt.Sprintf("Get(%d)", base)
	e := w.held[base]
	var got bgzf.Block
	if !w.guarded(what, func() { got = w.front.Get(base) }) {
		return false
	}
	w.gets++
	if got == nil {
		w.misses++
	}
	if w.gone[base] {
		w.revisit = true
	}
	switch {
	case e == nil && got != nil:
		w.rec.Failf("%s returned a block (base now %d) although the cache holds none for that base", what, got.Base())
		return false
	case e != nil && got == nil:
		w.rec.Failf("%s returned nil although block %d is held for that base", what, e.id)
		return false
	case e == nil:
		return true
	}
	if got.Base() != base {
		w.rec.Failf("%s returned a block whose base is %d", what, got.Base())
		return false
	}
	if got != e.blk {
		w.rec.Failf("%s returned a different block than the one retained for that base", what)
		return false
	}
	var ex bool
	if !w.guarded("Peek after "+what, func() { ex, _ = w.front.Peek(base) }) {
		return false
	}
	if ex {
		e.shared = true // still mapped: not ours to overwrite until Put hands it back
	} else {
		delete(w.held, base)
		e.held, e.shared = false, false
		w.gone[base] = true
	}
	w.own(e)
	return true
}

func run(c Case, rec *h.Rec) {
	inner := &h.Rec{}
	cur := &atomic.Value{}
	cur.Store("start")
	if h.Call(caseTimeout, func() { runHistory(c, inner, cur) }) {
		rec.Merge(inner)
		return
	}
	dl, where := h.Deadlocked("bgzf/cache")
	if dl {
		rec.Failf("%v did not return: goroutine blocked in the cache package\n%s", cur.Load(), where)
	} else {
		rec.Failf("%v did not return within %v (no deadlock signature)\n%s", cur.Load(), caseTimeout, where)
	}
}

func runHistory(c Case, rec *h.Rec, cur *atomic.Value) {
	w := &world{kind: c.Kind, cap: c.Cap, held: map[int64]*ent{}, rec: rec, gone: map[int64]bool{}, cur: cur}
	w.c = newCache(c.Kind, c.Cap)
	w.front = w.c
	if c.Stats {
		w.sr = &cache.StatsRecorder{Cache: w.c}
		w.front = w.sr
	}
	if !w.scan("construction") {
		return
	}
	for i, op := range c.Ops {
		what := fmt.Sprintf("op %d %+v", i, op)
		switch op.K {
		case "putfresh":
			if !w.put(w.fresh(op.Base, op.Used), what) {
				return
			}
		case "putowned":
			if len(w.owned) == 0 {
				continue
			}
			if !w.put(w.owned[op.Idx%len(w.owned)], what) {
				return
			}
		case "get":
			if !w.get(op.Base) {
				return
			}
		case "recycle":
			// overwrite a block the harness is entitled to overwrite
			var cand []*ent
			for _, e := range w.owned {
				if e.licensed {
					cand = append(cand, e)
				}
			}
			if len(cand) == 0 {
				continue
			}
			e := cand[op.Idx%len(cand)]
			w.gone[e.base] = true
			w.recycle(e, op.Base, op.Used)
			rec.Class("recycled_a_block")
		case "resize":
			n := len(w.held)
			if !w.guarded(what, func() { w.c.Resize(op.N) }) {
				return
			}
			w.cap = op.N
			rm := 0
			if op.N < n {
				rm = n - op.N
			}
			if !w.reconcile(what, rm) {
				return
			}
		case "drop":
			n := len(w.held)
			if !w.guarded(what, func() { w.c.Drop(op.N) }) {
				return
			}
			rm := op.N
			if rm < 0 {
				rm = 0
			}
			if rm > n {
				rm = n
			}
			if !w.reconcile(what, rm) {
				return
			}
		case "free":
			n := len(w.held)
			empty := w.cap - n
			var ok bool
			if !w.guarded(what, func() { ok = cache.Free(op.N, w.c) }) {
				return
			}
			rm := 0
			if op.N > empty {
				rm = op.N - empty
				if rm > n {
					rm = n
				}
			}
			if !w.reconcile(what, rm) {
				return
			}
			want := w.cap-len(w.held) >= op.N
			if ok != want {
				rec.Failf("%s: Free(%d) = %v with %d of %d slots free afterwards", what, op.N, ok, w.cap-len(w.held), w.cap)
				return
			}
			if op.N <= w.cap && !ok {
				rec.Failf("%s: Free(%d) = false although the capacity is %d", what, op.N, w.cap)
				return
			}
		}
		if !w.scan(what) {
			return
		}
	}
	if w.sr != nil {
		st := w.sr.Stats()
		want := cache.Stats{Gets: w.gets, Misses: w.misses, Puts: w.puts, Retains: w.retains, Evictions: w.evictions}
		if st != want {
			rec.Failf("StatsRecorder reports %+v, the history has %+v", st, want)
			return
		}
	}
	rec.ClassIf(w.evicted, "eviction_or_drop")
	rec.ClassIf(w.revisit, "get_of_base_put_and_gone_earlier")
	rec.Class(c.Kind)
	rec.NTIf(w.evicted && w.revisit)
}

// ---- generators ----

func opGen(maxBase, maxN int) *rapid.Generator[Op] {
	return rapid.Custom(func(t *rapid.T) Op {
		k := rapid.SampledFrom([]string{"putfresh", "putfresh", "putfresh", "putowned", "putowned", "get", "get", "get", "recycle", "recycle", "resize", "drop", "free"}).Draw(t, "k")
		op := Op{K: k}
		switch k {
		case "putfresh":
			op.Base = rapid.IntRange(0, maxBase).Draw(t, "base")
			op.Used = rapid.IntRange(0, 3).Draw(t, "used") != 0
		case "putowned":
			op.Idx = rapid.IntRange(0, 5).Draw(t, "idx")
		case "get":
			op.Base = rapid.IntRange(0, maxBase).Draw(t, "base")
		case "recycle":
			op.Idx = rapid.IntRange(0, 5).Draw(t, "idx")
			op.Base = rapid.IntRange(0, maxBase).Draw(t, "base")
			op.Used = rapid.IntRange(0, 3).Draw(t, "used") != 0
		case "resize":
			op.N = rapid.IntRange(1, maxN).Draw(t, "n")
		case "drop":
			op.N = rapid.IntRange(0, maxN+1).Draw(t, "n")
		case "free":
			op.N = rapid.IntRange(0, maxN+1).Draw(t, "n")
		}
		return op
	})
}

func draw(t *rapid.T) Case {
	c := Case{
		Kind:  rapid.SampledFrom([]string{"lru", "fifo", "random"}).Draw(t, "kind"),
		Cap:   rapid.IntRange(1, 4).Draw(t, "cap"),
		Stats: rapid.IntRange(0, 3).Draw(t, "stats") == 0,
	}
	c.Ops = rapid.SliceOfN(opGen(nBases-1, 4), 1, 40).Draw(t, "ops")
	if c.Stats {
		// the recorder only wraps Get/Put/Peek
		for i := range c.Ops {
			_ = i
		}
	}
	return c
}

// exhaustive enumeration of short histories
func enumAlphabet() []Op {
	var a []Op
	for b := 0; b < 3; b++ {
		a = append(a, Op{K: "putfresh", Base: b, Used: true}, Op{K: "putfresh", Base: b, Used: false})
		a = append(a, Op{K: "get", Base: b})
		a = append(a, Op{K: "recycle", Idx: 0, Base: b, Used: true})
	}
	a = append(a, Op{K: "putowned", Idx: 0}, Op{K: "putowned", Idx: 1})
	a = append(a, Op{K: "resize", N: 1}, Op{K: "resize", N: 2})
	a = append(a, Op{K: "drop", N: 0}, Op{K: "drop", N: 1}, Op{K: "drop", N: 2})
	a = append(a, Op{K: "free", N: 1}, Op{K: "free", N: 2}, Op{K: "free", N: 3})
	return a
}

func enum(ctx *h.Ctx) {
	alpha := enumAlphabet()
	maxLen := ctx.Pick(4, 5)
	idx := 0
	for _, kind := range []string{"lru", "fifo", "random"} {
		for cp := 1; cp <= 2; cp++ {
			for l := 1; l <= maxLen; l++ {
				ops := make([]Op, l)
				var rec func(pos int) bool
				rec = func(pos int) bool {
					if pos == l {
						idx++
						if !ctx.Mine(idx) {
							return true
						}
						c := Case{Kind: kind, Cap: cp, Stats: idx%7 == 0, Ops: append([]Op(nil), ops...)}
						r := &h.Rec{}
						h.Safe(r, "cache history", func() { run(c, r) })
						return ctx.Case(c, r)
					}
					for _, o := range alpha {
						ops[pos] = o
						if !rec(pos + 1) {
							return false
						}
					}
					return true
				}
				if !rec(0) {
					return
				}
			}
		}
	}
	ctx.MarkExhaustive()
}

// ---- concurrent histories, checked for linearizability ----

type COp struct {
	K    string // put get peek len cap resize
	Base int
	Used bool
	N    int // resize: new capacity 1..3
}
type CCase struct {
	Kind    string
	Cap     int
	Threads [][]COp
	Yield   uint32 // 0: plain blocks; otherwise blocks yield the processor inside Used/Base/NextBase following this pattern
}

// yieldBlock is a Block whose accessors give up the processor, so that the
// window between a cache's look-up of a block and what it does next is wide
// enough for the other goroutines of the history to get in. The cache only
// sees the Block interface, as it does with the reader's blocks.
type yieldBlock struct {
	bgzf.Block
	pat uint32
	n   *uint32
}

func (b *yieldBlock) pause() {
	k := atomic.AddUint32(b.n, 1)
	x := uint64(k)*0x9e3779b97f4a7c15 ^ uint64(b.pat)*0xbf58476d1ce4e5b9
	x ^= x >> 29
	switch x % 4 {
	case 0:
	case 1:
		runtime.Gosched()
	case 2:
		time.Sleep(time.Duration(5+x>>8%40) * time.Microsecond)
	default:
		for i := 0; i < 3; i++ {
			runtime.Gosched()
		}
	}
}
func (b *yieldBlock) Used() bool      { b.pause(); u := b.Block.Used(); b.pause(); return u }
func (b *yieldBlock) Base() int64     { b.pause(); v := b.Block.Base(); b.pause(); return v }
func (b *yieldBlock) NextBase() int64 { b.pause(); v := b.Block.NextBase(); b.pause(); return v }

type cin struct {
	k    string
	base int64
	id   int
	used bool
	next int64
	n    int
}
type cout struct {
	id   int // get: block id or 0; put: evicted id, 0 none, -1 self
	ret  bool
	ex   bool
	next int64
	n    int
}

type mblock struct {
	id   int
	base int64
	used bool
	next int64
	seq  int
}

// state is a canonical string: cap|seqcounter|id,base,used,next,seq;...
type mstate struct {
	cap    int
	seq    int
	blocks []mblock
}

func (s mstate) key() string {
	var sb strings.Builder
	fmt.Fprintf(&sb, "%d|", s.cap)
	// order of retention matters only relatively: normalise seq numbers
	bl := append([]mblock(nil), s.blocks...)
	sort.Slice(bl, func(i, j int) bool { return bl[i].seq < bl[j].seq })
	for _, b := range bl {
		fmt.Fprintf(&sb, "%d,%d,%v;", b.id, b.base, b.used)
	}
	return sb.String()
}

func cacheModel(kind string, cp int) porcupine.Model {
	return porcupine.Model{
		Init: func() interface{} { return mstate{cap: cp} },
		Equal: func(a, b interface{}) bool {
			return a.(mstate).key() == b.(mstate).key()
		},
		Step: func(st, in, out interface{}) (bool, interface{}) {
			s := st.(mstate)
			i, o := in.(cin), out.(cout)
			find := func(base int64) int {
				for k, b := range s.blocks {
					if b.base == base {
						return k
					}
				}
				return -1
			}
			switch i.k {
			case "len":
				return o.n == len(s.blocks), s
			case "cap":
				return o.n == s.cap, s
			case "resize":
				// LRU and FIFO drop from the old end of their list (insertion order:
				// Get unlinks, so no other order arises); Random is not generated
				bl := append([]mblock(nil), s.blocks...)
				sort.Slice(bl, func(a, b int) bool { return bl[a].seq < bl[b].seq })
				if len(bl) > i.n {
					bl = bl[len(bl)-i.n:]
				}
				return true, mstate{cap: i.n, seq: s.seq, blocks: bl}
			case "peek":
				k := find(i.base)
				if k < 0 {
					return !o.ex && o.next == -1, s
				}
				return o.ex && o.next == s.blocks[k].next, s
			case "get":
				k := find(i.base)
				if k < 0 {
					return o.id == 0, s
				}
				if o.id != s.blocks[k].id {
					return false, s
				}
				if kind == "fifo" && s.blocks[k].used {
					// not generated (see the generator); keep the state
					return true, s
				}
				ns := mstate{cap: s.cap, seq: s.seq, blocks: append(append([]mblock(nil), s.blocks[:k]...), s.blocks[k+1:]...)}
				return true, ns
			case "put":
				if find(i.base) >= 0 {
					return !o.ret && (o.id == -1 || (kind == "fifo" && o.id == 0)), s
				}
				if len(s.blocks) == s.cap {
					if !i.used {
						return !o.ret && o.id == -1, s
					}
					if !o.ret || o.id <= 0 {
						return false, s
					}
					// the evicted block must be a legal choice
					k := -1
					anyUnused := false
					minSeq := int(^uint(0) >> 1)
					for j, b := range s.blocks {
						if b.id == o.id {
							k = j
						}
						if !b.used {
							anyUnused = true
						} else if b.seq < minSeq {
							minSeq = b.seq
						}
					}
					if k < 0 {
						return false, s
					}
					d := s.blocks[k]
					if anyUnused && d.used {
						return false, s
					}
					if !anyUnused && kind != "random" && d.seq != minSeq {
						return false, s
					}
					nb := append(append([]mblock(nil), s.blocks[:k]...), s.blocks[k+1:]...)
					nb = append(nb, mblock{i.id, i.base, i.used, i.next, s.seq + 1})
					return true, mstate{cap: s.cap, seq: s.seq + 1, blocks: nb}
				}
				if !o.ret || o.id != 0 {
					return false, s
				}
				nb := append(append([]mblock(nil), s.blocks...), mblock{i.id, i.base, i.used, i.next, s.seq + 1})
				return true, mstate{cap: s.cap, seq: s.seq + 1, blocks: nb}
			}
			return false, s
		},
		DescribeOperation: func(in, out interface{}) string {
			return fmt.Sprintf("%+v -> %+v", in, out)
		},
	}
}

func drawC(t *rapid.T) CCase {
	c := CCase{
		Kind: rapid.SampledFrom([]string{"lru", "fifo", "random"}).Draw(t, "kind"),
		Cap:  rapid.IntRange(1, 3).Draw(t, "cap"),
	}
	nt := rapid.IntRange(2, 4).Draw(t, "threads")
	for i := 0; i < nt; i++ {
		ops := rapid.SliceOfN(rapid.Custom(func(t *rapid.T) COp {
			k := rapid.SampledFrom([]string{"put", "put", "put", "get", "peek", "len", "len", "cap", "resize"}).Draw(t, "k")
			base := rapid.IntRange(0, 3).Draw(t, "base")
			used := rapid.IntRange(0, 3).Draw(t, "used") != 0
			return COp{K: k, Base: base, Used: used, N: rapid.IntRange(1, 3).Draw(t, "n")}
		}), 3, 6).Draw(t, fmt.Sprintf("t%d", i))
		c.Threads = append(c.Threads, ops)
	}
	if rapid.IntRange(0, 3).Draw(t, "yielding") != 0 {
		c.Yield = rapid.Uint32Range(1, 1<<20).Draw(t, "yield")
	}
	return c
}

func runC(c CCase, rec *h.Rec) {
	// FIFO's Get keeps used blocks mapped; to stay independent of that
	// choice, FIFO histories only Get bases that receive unused blocks
	// (bases 2,3) and only Put used blocks on the others.
	cc := newCache(c.Kind, c.Cap)
	type planned struct {
		in  cin
		blk bgzf.Block
	}
	id := 0
	var yields uint32
	resizes, hasResize := false, false
	for _, ops := range c.Threads {
		for _, o := range ops {
			hasResize = hasResize || (o.K == "resize" && c.Kind != "random")
		}
	}
	plans := make([][]planned, len(c.Threads))
	blocks := map[bgzf.Block]int{}
	for ti, ops := range c.Threads {
		for _, o := range ops {
			p := planned{in: cin{k: o.K, base: fileBase(o.Base), n: o.N}}
			if o.K == "resize" {
				resizes = true
				if c.Kind == "random" {
					p.in.k = "cap" // which blocks Random drops is not determined
				}
			}
			used := o.Used
			if c.Kind == "fifo" {
				used = o.Base < 2
				if o.K == "get" && o.Base < 2 {
					p.in.k = "peek"
				}
			}
			if hasResize {
				// Resize drops from the old end of the list only if no block is
				// unused-and-preferred; with used blocks only, what a shrinking Resize
				// and a Put on a full cache evict is determined
				used = true
				if c.Kind == "fifo" && o.K == "get" {
					p.in.k = "peek"
				}
			}
			if o.K == "put" {
				id++
				size := int64(60 + id)
				p.in.id, p.in.used, p.in.next = id, used, fileBase(o.Base)+size
				p.blk = pooled(id-1, fileBase(o.Base), size, used, []byte{byte(id)})
				if c.Yield != 0 {
					p.blk = &yieldBlock{Block: p.blk, pat: c.Yield, n: &yields}
				}
				blocks[p.blk] = id
			}
			plans[ti] = append(plans[ti], p)
		}
	}
	var clock int64
	var mu sync.Mutex
	var hist []porcupine.Operation
	start := make(chan struct{})
	var wg sync.WaitGroup
	for ti := range plans {
		wg.Add(1)
		go func(ti int) {
			defer wg.Done()
			<-start
			for _, p := range plans[ti] {
				call := atomic.AddInt64(&clock, 1)
				var out cout
				switch p.in.k {
				case "put":
					ev, ret := cc.Put(p.blk)
					out.ret = ret
					switch {
					case ev == nil:
						out.id = 0
					case ev == p.blk:
						out.id = -1
					default:
						out.id = blocks[ev]
					}
				case "get":
					if b := cc.Get(p.in.base); b != nil {
						out.id = blocks[b]
						if b.Base() != p.in.base {
							out.id = -99
						}
					}
				case "peek":
					out.ex, out.next = cc.Peek(p.in.base)
				case "len":
					out.n = cc.Len()
				case "cap":
					out.n = cc.Cap()
				case "resize":
					cc.Resize(p.in.n)
				}
				ret := atomic.AddInt64(&clock, 1)
				mu.Lock()
				hist = append(hist, porcupine.Operation{ClientId: ti, Input: p.in, Call: call, Output: out, Return: ret})
				mu.Unlock()
			}
		}(ti)
	}
	done := make(chan struct{})
	go func() { wg.Wait(); close(done) }()
	close(start)
	if !h.Await(done, 10*time.Second, "github.com/biogo/hts") {
		rec.Failf("concurrent cache operations did not all return (10s, then a goroutine dump that shows the cache stuck, or 100s)\n%s", h.Stacks()[:2000])
		return
	}
	res := porcupine.CheckOperationsTimeout(cacheModel(c.Kind, c.Cap), hist, 20*time.Second)
	switch res {
	case porcupine.Illegal:
		var sb strings.Builder
		sort.Slice(hist, func(i, j int) bool { return hist[i].Call < hist[j].Call })
		for _, op := range hist {
			fmt.Fprintf(&sb, "  client %d [%d,%d] %+v -> %+v\n", op.ClientId, op.Call, op.Return, op.Input, op.Output)
		}
		rec.Failf("%s cache (cap %d): concurrent history is not linearizable with respect to the sequential contract:\n%s", c.Kind, c.Cap, sb.String())
	case porcupine.Unknown:
		rec.Skip("linearizability check timed out")
	}
	rec.Class(c.Kind)
	rec.ClassIf(c.Yield != 0, "yielding_blocks")
	rec.ClassIf(resizes && hasResize, "with_resize")
	rec.NTIf(len(hist) >= 8)
}

// concurrent StatsRecorder counting
type SCase struct {
	Kind    string
	Cap     int
	Threads int
	Ops     int
}

func drawS(t *rapid.T) SCase {
	return SCase{
		Kind:    rapid.SampledFrom([]string{"lru", "fifo", "random"}).Draw(t, "kind"),
		Cap:     rapid.IntRange(1, 4).Draw(t, "cap"),
		Threads: rapid.IntRange(2, 8).Draw(t, "threads"),
		Ops:     rapid.IntRange(50, 400).Draw(t, "ops"),
	}
}

func runS(c SCase, rec *h.Rec) {
	sr := &cache.StatsRecorder{Cache: newCache(c.Kind, c.Cap)}
	var gets, misses, puts, retains, evictions int64
	var wg sync.WaitGroup
	start := make(chan struct{})
	for ti := 0; ti < c.Threads; ti++ {
		wg.Add(1)
		go func(ti int) {
			defer wg.Done()
			<-start
			x := uint64(ti)*7919 + 17
			var spare []bgzf.Block
			for i := 0; i < c.Ops; i++ {
				x = x*6364136223846793005 + 1442695040888963407
				base := fileBase(int(x>>33) % 5)
				if (x>>20)&1 == 0 {
					b := sr.Get(base)
					atomic.AddInt64(&gets, 1)
					if b == nil {
						atomic.AddInt64(&misses, 1)
					}
				} else {
					var blk bgzf.Block
					if len(spare) > 0 {
						blk = spare[len(spare)-1]
						spare = spare[:len(spare)-1]
						bgzf.VerifRecycle(blk, base, 70, (x>>21)&3 != 0, nil)
					} else {
						blk = bgzf.VerifNewBlock(base, 70, (x>>21)&3 != 0, nil)
					}
					ev, ret := sr.Put(blk)
					if ev != nil {
						spare = append(spare, ev) // handed back: ours to overwrite
					}
					atomic.AddInt64(&puts, 1)
					if ret {
						atomic.AddInt64(&retains, 1)
						if ev != nil {
							atomic.AddInt64(&evictions, 1)
						}
					}
				}
			}
		}(ti)
	}
	done := make(chan struct{})
	go func() { wg.Wait(); close(done) }()
	close(start)
	if !h.Await(done, 20*time.Second, "github.com/biogo/hts") {
		rec.Failf("concurrent StatsRecorder operations did not return (20s, then a goroutine dump that shows the cache stuck, or 200s)")
		return
	}
	st := sr.Stats()
	want := cache.Stats{Gets: int(gets), Misses: int(misses), Puts: int(puts), Retains: int(retains), Evictions: int(evictions)}
	if st != want {
		rec.Failf("StatsRecorder after %d goroutines x %d ops reports %+v, the calls add up to %+v", c.Threads, c.Ops, st, want)
	}
	rec.NT()
}

func TestProp(t *testing.T) {
	h.Main(t, "C14",
		h.Enum("sequential_exhaustive", enum, run),
		h.Rapid("sequential_rapid", h.Opt{Quick: 150000, Thorough: 3000000}, draw, run),
		h.Rapid("concurrent_linearizable", h.Opt{Quick: 20000, Thorough: 400000}, drawC, runC),
		h.Rapid("concurrent_stats", h.Opt{Quick: 600, Thorough: 20000}, drawS, runS),
		h.Rapid("concurrent_stress", h.Opt{Quick: 800, Thorough: 30000}, drawX, runX),
	)
}
