package c14

import (
	"fmt"
	"sync"
	"sync/atomic"
	"time"

	"github.com/biogo/hts/bgzf"
	"pgregory.net/rapid"

	"verif/internal/h"
)

// concurrent_stress: several goroutines run long generated operation streams
// on one cache. Few outcomes can be predicted, but some hold in every
// linearization: every call returns; Len never exceeds the largest capacity
// ever set; Get/Peek never answer for another base; at the end Len <= Cap and
// Cap is one of the capacities a Resize asked for. Blocks are immutable here
// (never recycled), so every observation is about the cache alone.

type XCase struct {
	Kind    string
	Cap     int
	Threads int
	Ops     int
	Seed    uint64
	Mix     int // 0: all operations; 1: no Resize/Drop (readers against writers); 2: mostly Peek/Len against Put/Get
}

func drawX(t *rapid.T) XCase {
	return XCase{
		Kind:    rapid.SampledFrom([]string{"lru", "fifo", "random"}).Draw(t, "kind"),
		Cap:     rapid.IntRange(1, 4).Draw(t, "cap"),
		Threads: rapid.IntRange(2, 6).Draw(t, "threads"),
		Ops:     rapid.SampledFrom([]int{500, 2000, 8000}).Draw(t, "ops"),
		Seed:    rapid.Uint64().Draw(t, "seed"),
		Mix:     rapid.IntRange(0, 2).Draw(t, "mix"),
	}
}

// fixedBlock answers the three questions a cache asks of a Block from fields
// that never change; everything else is delegated to a real block.
type fixedBlock struct {
	bgzf.Block
	base, next int64
	used       bool
}

func (b *fixedBlock) Base() int64     { return b.base }
func (b *fixedBlock) NextBase() int64 { return b.next }
func (b *fixedBlock) Used() bool      { return b.used }

var stressDelegate = bgzf.VerifNewBlock(0, 1, false, nil)

func runX(c XCase, rec *h.Rec) {
	cc := newCache(c.Kind, c.Cap)
	const maxCap = 4
	var bad atomic.Value
	fail := func(format string, a ...any) {
		bad.CompareAndSwap(nil, fmt.Sprintf(format, a...))
	}
	var wg sync.WaitGroup
	var total int64
	for g := 0; g < c.Threads; g++ {
		wg.Add(1)
		go func(g int) {
			defer wg.Done()
			x := c.Seed + uint64(g)*0x9e3779b97f4a7c15
			for i := 0; i < c.Ops && bad.Load() == nil; i++ {
				r := splitmix(&x)
				base := fileBase(int(r>>8) % 6)
				op := int(r>>32) % 16
				switch c.Mix {
				case 1:
					if op >= 12 {
						op -= 12
					}
				case 2:
					if g%2 == 0 {
						op = 6 + op%4 // peek, len, cap
					} else {
						op = op % 6
					}
				}
				switch {
				case op < 4: // put
					b := &fixedBlock{Block: stressDelegate, base: base, next: base + 70, used: r&3 != 0}
					ev, _ := cc.Put(b)
					if ev != nil && ev != bgzf.Block(b) {
						if _, ok := ev.(*fixedBlock); !ok {
							fail("Put handed back a block that was never put")
						}
					}
				case op < 6: // get
					if b := cc.Get(base); b != nil && b.Base() != base {
						fail("Get(%d) returned a block with base %d", base, b.Base())
					}
				case op < 8: // peek
					if ok, next := cc.Peek(base); ok && next != base+70 {
						fail("Peek(%d) = (true,%d), every block of that base ends at %d", base, next, base+70)
					} else if !ok && next != -1 {
						fail("Peek(%d) = (false,%d)", base, next)
					}
				case op < 10: // len
					if n := cc.Len(); n < 0 || n > maxCap {
						fail("Len() = %d, the capacity never exceeded %d", n, maxCap)
					}
				case op < 12: // cap
					if n := cc.Cap(); n < 1 || n > maxCap {
						fail("Cap() = %d, never asked for", n)
					}
				case op < 13:
					cc.Resize(1 + int(r>>40)%maxCap)
				case op < 14:
					cc.Drop(int(r>>40) % 3)
				default:
					cc.Resize(1 + int(r>>44)%maxCap)
				}
				atomic.AddInt64(&total, 1)
			}
		}(g)
	}
	done := make(chan struct{})
	go func() { wg.Wait(); close(done) }()
	if !h.Await(done, 20*time.Second, "github.com/biogo/hts") {
		dl, where := h.Deadlocked("github.com/biogo/hts")
		rec.Failf("%s cache: %d goroutines x %d operations did not all return (%d completed; deadlock signature %v)\n%s", c.Kind, c.Threads, c.Ops, atomic.LoadInt64(&total), dl, where)
		return
	}
	if m := bad.Load(); m != nil {
		rec.Failf("%s cache (cap %d, %d goroutines): %s", c.Kind, c.Cap, c.Threads, m)
		return
	}
	if n, k := cc.Len(), cc.Cap(); n > k {
		rec.Failf("%s cache: after all operations returned Len()=%d > Cap()=%d", c.Kind, n, k)
		return
	}
	rec.Class(c.Kind)
	rec.Class(fmt.Sprintf("mix%d", c.Mix))
	rec.NTIf(true)
}

func splitmix(x *uint64) uint64 {
	*x += 0x9e3779b97f4a7c15
	z := *x
	z = (z ^ (z >> 30)) * 0xbf58476d1ce4e5b9
	z = (z ^ (z >> 27)) * 0x94d049bb133111eb
	return z ^ (z >> 31)
}
