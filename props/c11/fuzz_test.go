package c11

import (
	"encoding/binary"
	"testing"
)

// Native coverage-guided fuzzing (thorough tier). The targets run in the
// fuzz worker itself, so inputs that would make a decoder allocate from a
// huge length field are skipped by a cheap structural pre-check (the
// statement does not judge them; the quick tier counts them).

func addSeeds(f *testing.F, target string) {
	for _, s := range seedFor(target) {
		f.Add(s)
	}
}

func FuzzUnmarshalSAM(f *testing.F) {
	addSeeds(f, "unmarshal_sam")
	f.Fuzz(func(t *testing.T, data []byte) { tUnmarshalSAM(data) })
}

func FuzzParseAux(f *testing.F) {
	addSeeds(f, "parse_aux")
	f.Fuzz(func(t *testing.T, data []byte) { tParseAux(data) })
}

func FuzzParseCigar(f *testing.F) {
	addSeeds(f, "parse_cigar")
	f.Fuzz(func(t *testing.T, data []byte) {
		if len(data) > 64 {
			return // a 13 digit length expands to thousands of operations; keep it cheap
		}
		tParseCigar(data)
	})
}

func FuzzHeaderText(f *testing.F) {
	addSeeds(f, "header_text")
	f.Fuzz(func(t *testing.T, data []byte) { tHeaderText(data) })
}

func FuzzSAMReader(f *testing.F) {
	addSeeds(f, "sam_reader")
	f.Fuzz(func(t *testing.T, data []byte) { tSAMReader(data) })
}

func FuzzFAI(f *testing.F) {
	addSeeds(f, "fai_new")
	addSeeds(f, "fai_read")
	f.Fuzz(func(t *testing.T, data []byte) {
		tFAINew(data)
		tFAIRead(data)
	})
}

func FuzzBGZF(f *testing.F) {
	addSeeds(f, "bgzf_rd1")
	f.Fuzz(func(t *testing.T, data []byte) {
		tBGZF(1)(data)
		tBGZF(2)(data)
	})
}

// bamSizesSane walks the BAM payload framing and rejects inputs whose length
// fields would make the reader allocate more than a few megabytes.
func bamSizesSane(b []byte) bool {
	const lim = 1 << 22
	if len(b) < 12 {
		return true
	}
	lText := int32(binary.LittleEndian.Uint32(b[4:]))
	if lText < 0 || lText > lim {
		return lText < 0
	}
	p := 8 + int(lText)
	if p+4 > len(b) {
		return true
	}
	nRef := int32(binary.LittleEndian.Uint32(b[p:]))
	p += 4
	for i := int32(0); i < nRef && p+4 <= len(b); i++ {
		lName := int32(binary.LittleEndian.Uint32(b[p:]))
		if lName > lim {
			return false
		}
		if lName < 0 {
			return true
		}
		p += 4 + int(lName) + 4
	}
	for p+4 <= len(b) {
		sz := int32(binary.LittleEndian.Uint32(b[p:]))
		if sz > lim {
			return false
		}
		if sz < 0 {
			return true
		}
		// aux B-array counts inside the record are bounded by the record size check in the reader
		p += 4 + int(sz)
	}
	return true
}

func FuzzBAMPayload(f *testing.F) {
	addSeeds(f, "bam_payload")
	f.Fuzz(func(t *testing.T, data []byte) {
		if !bamSizesSane(data) {
			return
		}
		tBAMPayload(data)
	})
}

func FuzzHeaderBinary(f *testing.F) {
	addSeeds(f, "header_binary")
	f.Fuzz(func(t *testing.T, data []byte) {
		if !bamSizesSane(data) {
			return
		}
		tHeaderBinary(data)
	})
}

func FuzzITF(f *testing.F) {
	addSeeds(f, "itf_ltf")
	f.Fuzz(func(t *testing.T, data []byte) { tITF(data) })
}
