// C11: decoders are total: any bytes give a value or an error, never a panic or hang; anything
// returned without error survives the library's own accessors, formatters, writers and index builders.
package c11

import (
	"bytes"
	"fmt"
	"io"
	"os"
	"strings"
	"sync"
	"testing"
	"time"

	"github.com/biogo/hts/bam"
	"github.com/biogo/hts/bgzf"
	"github.com/biogo/hts/bgzf/index"
	"github.com/biogo/hts/cram"
	"github.com/biogo/hts/cram/encoding/itf8"
	"github.com/biogo/hts/cram/encoding/ltf8"
	"github.com/biogo/hts/csi"
	"github.com/biogo/hts/fai"
	"github.com/biogo/hts/sam"
	"github.com/biogo/hts/tabix"
	"pgregory.net/rapid"

	"verif/internal/bz"
	"verif/internal/h"
	"verif/internal/iso"
	"verif/internal/ix"
	"verif/internal/sb"
)

const memLimitMB = 4096

// ---------------------------------------------------------------------------
// targets (run inside the worker process)

type discard struct{}

func (discard) Write(p []byte) (int, error) { return len(p), nil }

// exerciseRecord passes a record the library returned to the library's own consumers.
func exerciseRecord(r *sam.Record, hd *sam.Header, w *bam.Writer, idx *bam.Index, chunk bgzf.Chunk) {
	_ = r.String()
	for f := sam.FlagDecimal; f <= sam.FlagString; f++ {
		r.MarshalSAM(f)
	}
	r.MarshalText()
	_, _, _, _ = r.End(), r.Len(), r.Bin(), r.Strand()
	_ = r.Start()
	_ = r.Cigar.IsValid(r.Seq.Length)
	r.Cigar.Lengths()
	_ = r.Cigar.String()
	for _, co := range r.Cigar {
		_ = co.Type().Consumes()
		_ = co.String()
	}
	for _, a := range r.AuxFields {
		_, _, _ = a.Tag(), a.Kind(), a.Type()
		_ = a.Value()
		_ = a.String()
	}
	r.AuxFields.Get(sam.NewTag("NM"))
	r.Tag([]byte("RG"))
	_ = sam.IsValidRecord(r)
	if hd != nil {
		hd.Validate(r)
	}
	_ = r.Seq.Expand()
	if w != nil {
		w.Write(r)
	}
	if idx != nil {
		idx.Add(r, chunk)
	}
}

func exerciseHeader(hd *sam.Header) {
	hd.MarshalText()
	hd.MarshalBinary()
	c := hd.Clone()
	c.MarshalText()
	hd.Tags(func(sam.Tag, string) {})
	for _, r := range hd.Refs() {
		r.Tags(func(sam.Tag, string) {})
		_, _, _, _, _, _ = r.ID(), r.Name(), r.Len(), r.MD5(), r.URI(), r.String()
	}
	for _, g := range hd.RGs() {
		g.Tags(func(sam.Tag, string) {})
		_ = g.String()
	}
	for _, p := range hd.Progs() {
		p.Tags(func(sam.Tag, string) {})
		_ = p.String()
	}
	sam.MergeHeaders([]*sam.Header{hd, c})
}

func tBGZF(rd int) func([]byte) string {
	return func(data []byte) string {
		bgzf.HasEOF(bytes.NewReader(data))
		r, err := bgzf.NewReader(bytes.NewReader(data), rd)
		if err != nil {
			return "rejected"
		}
		defer r.Close()
		buf := make([]byte, 1<<16)
		n := 0
		for {
			m, err := r.Read(buf)
			n += m
			_ = r.LastChunk()
			if err != nil {
				break
			}
		}
		return fmt.Sprintf("read %d", n)
	}
}

// tBAMPayload wraps the (mutated) inflated payload in valid BGZF so that mutations reach the record parser.
func tBAMPayload(data []byte) string {
	var pieces [][]byte
	for i := 0; i < len(data); i += 60000 {
		e := i + 60000
		if e > len(data) {
			e = len(data)
		}
		pieces = append(pieces, data[i:e])
	}
	return tBAMRaw(bz.BuildFile(pieces, 1, true).Bytes)
}

func tBAMRaw(stream []byte) string {
	note := "rejected"
	for omit := bam.None; omit <= bam.AllVariableLengthData; omit++ {
		r, err := bam.NewReader(bytes.NewReader(stream), 1)
		if err != nil {
			return note
		}
		note = "header ok"
		r.Omit(omit)
		hd := r.Header()
		exerciseHeader(hd)
		w, _ := bam.NewWriter(discard{}, hd, 1)
		idx := &bam.Index{}
		n := 0
		var kept []*sam.Record
		for n < 2000 {
			rec, err := r.Read()
			if err != nil {
				break
			}
			n++
			exerciseRecord(rec, hd, w, idx, r.LastChunk())
			if len(kept) < 40 {
				kept = append(kept, rec)
			}
		}
		// a record stays usable after the reader has moved on
		for _, rec := range kept {
			exerciseRecord(rec, hd, nil, nil, bgzf.Chunk{})
		}
		if n > 0 {
			note = fmt.Sprintf("%d records", n)
		}
		if w != nil {
			w.Close()
		}
		for _, ref := range hd.Refs() {
			idx.Chunks(ref, 0, 1<<20)
		}
		r.Close()
	}
	return note
}

func tSAMReader(data []byte) string {
	r, err := sam.NewReader(bytes.NewReader(data))
	if err != nil {
		return "rejected"
	}
	hd := r.Header()
	exerciseHeader(hd)
	n := 0
	for n < 2000 {
		rec, err := r.Read()
		if err != nil {
			if err == io.EOF {
				break
			}
			continue
		}
		n++
		exerciseRecord(rec, hd, nil, nil, bgzf.Chunk{})
	}
	return fmt.Sprintf("%d records", n)
}

var fixedHeader = func() *sam.Header {
	hd, _ := sam.NewHeader([]byte("@HD\tVN:1.6\tSO:coordinate\n@SQ\tSN:chr1\tLN:1000000\n@SQ\tSN:chr2\tLN:2000\n@RG\tID:g1\tLB:l\tPU:u\n@PG\tID:p1\n"), nil)
	return hd
}()

func tUnmarshalSAM(data []byte) string {
	note := "rejected"
	var r1 sam.Record
	if err := r1.UnmarshalSAM(nil, data); err == nil {
		exerciseRecord(&r1, nil, nil, nil, bgzf.Chunk{})
		note = "parsed without header"
	}
	var r2 sam.Record
	if err := r2.UnmarshalSAM(fixedHeader, data); err == nil {
		w, _ := bam.NewWriter(discard{}, fixedHeader, 1)
		exerciseRecord(&r2, fixedHeader, w, &bam.Index{}, bgzf.Chunk{Begin: bgzf.Offset{File: 10}, End: bgzf.Offset{File: 20}})
		w.Close()
		note = "parsed with header"
	}
	var r3 sam.Record
	r3.UnmarshalText(data)
	return note
}

func tParseAux(data []byte) string {
	a, err := sam.ParseAux(data)
	if err != nil {
		return "rejected"
	}
	_, _, _ = a.Tag(), a.Kind(), a.Type()
	_ = a.Value()
	_ = a.String()
	r := &sam.Record{Name: "x", AuxFields: sam.AuxFields{a}}
	r.MarshalSAM(sam.FlagDecimal)
	w, _ := bam.NewWriter(discard{}, fixedHeader, 1)
	w.Write(r)
	w.Close()
	return "parsed"
}

func tParseCigar(data []byte) string {
	c, err := sam.ParseCigar(data)
	if err != nil {
		return "rejected"
	}
	_ = c.String()
	c.Lengths()
	_ = c.IsValid(10)
	r := &sam.Record{Name: "x", Cigar: c, Pos: 5}
	_, _ = r.End(), r.Bin()
	return "parsed"
}

func tHeaderText(data []byte) string {
	hd, err := sam.NewHeader(data, nil)
	if err != nil {
		return "rejected"
	}
	exerciseHeader(hd)
	t1, _ := hd.MarshalText()
	sam.NewHeader(t1, nil)
	return "parsed"
}

func tHeaderBinary(data []byte) string {
	hd, _ := sam.NewHeader(nil, nil)
	if err := hd.UnmarshalBinary(data); err != nil {
		return "rejected"
	}
	exerciseHeader(hd)
	return "parsed"
}

func queryAll(n int, chunks func(i int)) {
	for i := -1; i <= n && i < 50; i++ {
		chunks(i)
	}
}

func tBAI(data []byte) string {
	idx, err := bam.ReadIndex(bytes.NewReader(data))
	if err != nil || idx == nil {
		return "rejected"
	}
	n := idx.NumRefs()
	hd, _ := ix.Header(minInt(n, 40) + 1)
	for i, ref := range hd.Refs() {
		idx.Chunks(ref, 0, 1<<29)
		idx.Chunks(ref, 16384, 16385)
		if i < n {
			idx.ReferenceStats(i)
		}
	}
	idx.Unmapped()
	bam.WriteIndex(discard{}, idx)
	idx.MergeChunks(index.Adjacent)
	idx.MergeChunks(index.Squash)
	bam.WriteIndex(discard{}, idx)
	return fmt.Sprintf("%d refs", n)
}

func tCSI(data []byte) string {
	idx, err := csi.ReadFrom(bytes.NewReader(data))
	if err != nil || idx == nil {
		return "rejected"
	}
	n := idx.NumRefs()
	for i := -1; i <= n && i < 50; i++ {
		idx.Chunks(i, 0, 1<<20)
		idx.Chunks(i, 100, 101)
		if i >= 0 && i < n {
			idx.ReferenceStats(i)
		}
	}
	idx.Unmapped()
	csi.WriteTo(discard{}, idx)
	idx.MergeChunks(index.Adjacent)
	csi.WriteTo(discard{}, idx)
	return fmt.Sprintf("%d refs", n)
}

func tTabix(data []byte) string {
	idx, err := tabix.ReadFrom(bytes.NewReader(data))
	if err != nil || idx == nil {
		return "rejected"
	}
	n := idx.NumRefs()
	for i, name := range idx.Names() {
		idx.Chunks(name, 0, 1<<29)
		if i < n {
			idx.ReferenceStats(i)
		}
		if i > 50 {
			break
		}
	}
	idx.Chunks("nosuchname", 0, 10)
	idx.IDs()
	idx.Unmapped()
	tabix.WriteTo(discard{}, idx)
	idx.MergeChunks(index.Squash)
	tabix.WriteTo(discard{}, idx)
	return fmt.Sprintf("%d refs", n)
}

func tFAIRead(data []byte) string {
	idx, err := fai.ReadFrom(bytes.NewReader(data))
	if err != nil {
		return "rejected"
	}
	fai.WriteTo(discard{}, idx)
	// use it on a small in-memory file: positions may be anything
	f := fai.NewFile(bytes.NewReader(bytes.Repeat([]byte("ACGT\n"), 50)), idx)
	buf := make([]byte, 64)
	k := 0
	for name, rec := range idx {
		if k++; k > 20 {
			break
		}
		if rec.Length > 0 && rec.Length < 1<<20 {
			if s, err := f.SeqRange(name, 0, rec.Length); err == nil {
				for i := 0; i < 200; i++ {
					if _, err := s.Read(buf); err != nil {
						break
					}
				}
			}
		}
		if s, err := f.Seq(name); err == nil {
			for i := 0; i < 50; i++ {
				if _, err := s.Read(buf); err != nil {
					break
				}
			}
		}
	}
	return fmt.Sprintf("%d records", len(idx))
}

func tFAINew(data []byte) string {
	idx, err := fai.NewIndex(bytes.NewReader(data))
	if err != nil {
		return "rejected"
	}
	fai.WriteTo(discard{}, idx)
	f := fai.NewFile(bytes.NewReader(data), idx)
	buf := make([]byte, 7)
	for name, rec := range idx {
		if s, err := f.SeqRange(name, 0, rec.Length); err == nil {
			for i := 0; i < 10000; i++ {
				if _, err := s.Read(buf); err != nil {
					break
				}
			}
		}
		if rec.Length > 1 {
			if s, err := f.SeqRange(name, rec.Length/2, rec.Length); err == nil {
				io.Copy(discard{}, s)
			}
		}
	}
	return fmt.Sprintf("%d records", len(idx))
}

func tCRAM(data []byte) string {
	cram.HasEOF(bytes.NewReader(data))
	r, err := cram.NewReader(bytes.NewReader(data))
	if err != nil {
		return "rejected"
	}
	nc, nb := 0, 0
	for r.Next() && nc < 100 {
		nc++
		c := r.Container()
		for c.Next() && nb < 1000 {
			nb++
			v, err := c.Block().Value()
			if err == nil {
				if hd, ok := v.(*sam.Header); ok && hd != nil {
					hd.MarshalText()
				}
			}
		}
		c.Err()
	}
	r.Err()
	return fmt.Sprintf("%d containers %d blocks", nc, nb)
}

func tITF(data []byte) string {
	itf8.Decode(data)
	ltf8.Decode(data)
	for i := range data {
		itf8.Decode(data[i:])
		ltf8.Decode(data[i:])
	}
	return "decoded"
}

func minInt(a, b int) int {
	if a < b {
		return a
	}
	return b
}

var targets = []iso.Target{
	{Name: "bgzf_rd1", Run: tBGZF(1)},
	{Name: "bgzf_rd2", Run: tBGZF(2)},
	{Name: "bam_payload", Run: tBAMPayload},
	{Name: "bam_raw", Run: tBAMRaw},
	{Name: "sam_reader", Run: tSAMReader},
	{Name: "unmarshal_sam", Run: tUnmarshalSAM},
	{Name: "parse_aux", Run: tParseAux},
	{Name: "parse_cigar", Run: tParseCigar},
	{Name: "header_text", Run: tHeaderText},
	{Name: "header_binary", Run: tHeaderBinary},
	{Name: "bai", Run: tBAI},
	{Name: "csi", Run: tCSI},
	{Name: "tabix", Run: tTabix},
	{Name: "fai_read", Run: tFAIRead},
	{Name: "fai_new", Run: tFAINew},
	{Name: "cram", Run: tCRAM},
	{Name: "itf_ltf", Run: tITF},
}

func TestWorker(t *testing.T) {
	if os.Getenv("VERIF_WORKER") == "" {
		t.Skip("worker entry point")
	}
	iso.Serve(targets, memLimitMB)
}

// ---------------------------------------------------------------------------
// seeds: valid encodings produced by the other generators (deterministic)

var (
	seedOnce sync.Once
	seeds    map[string][][]byte
)

func exampleRecs() []sb.ARec {
	return []sb.ARec{
		{Name: "r1", Ref: 0, Mate: 0, Pos: 100, MPos: 300, MapQ: 30, Flags: 99, TLen: 250, Cigar: []sb.COp{{T: 4, L: 2}, {T: 0, L: 6}, {T: 2, L: 1}, {T: 0, L: 2}}, SeqLen: 10, SeqSeed: 1, HasQual: true,
			Aux: []sb.AAux{{Tag: "NM", Ty: 'C', I: 1}, {Tag: "RG", Ty: 'Z', S: "g1"}, {Tag: "XA", Ty: 'A', I: 'Q'}, {Tag: "Xs", Ty: 's', I: -300}, {Tag: "Xi", Ty: 'i', I: -70000}, {Tag: "Xf", Ty: 'f', F: 1.5},
				{Tag: "XB", Ty: 'B', Sub: 'S', BI: []int64{1, 2, 65535}}, {Tag: "Xb", Ty: 'B', Sub: 'f', BF: []float32{0.5, -1}}, {Tag: "Xc", Ty: 'B', Sub: 'c', BI: []int64{-1, 5}}}},
		{Name: "arrays", Ref: 0, Mate: -1, Pos: 7, MPos: -1, MapQ: 9, Flags: 0, SeqLen: 4, SeqSeed: 4, Cigar: []sb.COp{{T: 0, L: 4}},
			Aux: []sb.AAux{{Tag: "Bs", Ty: 'B', Sub: 's', BI: []int64{-3, 4, 5}}, {Tag: "Bi", Ty: 'B', Sub: 'i', BI: []int64{-70000, 2}}, {Tag: "BI", Ty: 'B', Sub: 'I', BI: []int64{4000000000}},
				{Tag: "BC", Ty: 'B', Sub: 'C', BI: []int64{1, 2, 3, 4}}, {Tag: "Be", Ty: 'B', Sub: 'c', BI: nil}, {Tag: "XS", Ty: 'S', I: 65535}, {Tag: "Xc", Ty: 'c', I: -5}}},
		{Name: "r2", Ref: 1, Mate: -1, Pos: 5, MPos: -1, MapQ: 0, Flags: 16, SeqLen: 5, SeqSeed: 2, Cigar: []sb.COp{{T: 0, L: 5}}, Aux: []sb.AAux{{Tag: "ZZ", Ty: 'Z', S: ""}, {Tag: "XI", Ty: 'I', I: 4000000000}}},
		{Name: "unmapped", Ref: -1, Mate: -1, Pos: -1, MPos: -1, Flags: 4, SeqLen: 3, SeqSeed: 3, HasQual: true},
	}
}

func buildSeeds() {
	seeds = map[string][][]byte{}
	specs := []sb.RefSpec{{Name: "chr1", Len: 1000000}, {Name: "chr2", Len: 2000, MD5: "0123456789abcdef0123456789abcdef", URI: "http://x.org/a"}}
	hs := sb.HSpec{Version: "1.6", SO: 3, Refs: specs, RGs: []sb.RGSpec{{ID: "g1", LB: "l", PU: "u", HasDate: true, Unix: 1500000000, PI: 300}}, Progs: []sb.PGSpec{{ID: "p1", PN: "prog", CL: "cmd -x"}}, Comments: []string{"a comment"}}
	hd, err := hs.Build()
	if err != nil {
		panic(err)
	}
	text, _ := hd.MarshalText()
	payload := sb.SpecBAMHeader(text, specs)
	hdrBin := append([]byte(nil), payload...)
	var lines []string
	for _, a := range exampleRecs() {
		payload = append(payload, sb.SpecBAMRecord(a)...)
		lines = append(lines, sb.SpecSAMLine(a, specs, 0))
	}
	seeds["bam_payload"] = [][]byte{payload, sb.SpecBAMHeader(nil, nil)}
	// two records larger than the reader's 4 KiB inline buffer, each with several aux
	// fields; the second one's long text lies over the place of the first one's small
	// fields (six fillings, each a letter that is also a field type wider than one byte: a reader
	// that reuses storage leaves a wider type letter in front of the first one's one-byte value)
	for k := 0; k < 6; k++ {
		long := sb.SpecBAMHeader([]byte("@SQ\tSN:c\tLN:1000\n"), []sb.RefSpec{{Name: "c", Len: 1000}})
		long = append(long, sb.SpecBAMRecord(sb.ARec{Name: "long0", Ref: 0, Mate: -1, Pos: 3, MPos: -1, MapQ: 1, SeqLen: 2, SeqSeed: 5, Cigar: []sb.COp{{T: 0, L: 2}},
			Aux: []sb.AAux{{Tag: "z1", Ty: 'i', I: -70000}, {Tag: "z2", Ty: 'B', Sub: 's', BI: []int64{-3, 4, 5}}, {Tag: "z3", Ty: 'C', I: 7}, {Tag: "z4", Ty: 'f', F: 1.5}, {Tag: "z0", Ty: 'Z', ZN: 4500}}})...)
		// the second record is the shorter one (it fits into storage sized for the first)
		// and begins with its long text, which then lies where the first one's small fields were
		long = append(long, sb.SpecBAMRecord(sb.ARec{Name: "long1", Ref: 0, Mate: -1, Pos: 4, MPos: -1, MapQ: 1, SeqLen: 2, SeqSeed: 6, Cigar: []sb.COp{{T: 0, L: 2}},
			Aux: []sb.AAux{{Tag: "y0", Ty: 'Z', S: strings.Repeat("iBIfSs"[k:k+1], 4300+7*k)}, {Tag: "y1", Ty: 'A', I: 'Q'}}})...)
		seeds["bam_payload"] = append(seeds["bam_payload"], long)
	}
	// small inputs: one record with one aux field each, so that a mutation of a
	// length or count field is likely to be the only damage
	oneRef := []sb.RefSpec{{Name: "c", Len: 1000}}
	for _, ax := range []sb.AAux{
		{Tag: "Bs", Ty: 'B', Sub: 's', BI: []int64{-3, 4, 5}}, {Tag: "BS", Ty: 'B', Sub: 'S', BI: []int64{1, 2}}, {Tag: "Bi", Ty: 'B', Sub: 'i', BI: []int64{-70000, 2}},
		{Tag: "BI", Ty: 'B', Sub: 'I', BI: []int64{4000000000}}, {Tag: "Bf", Ty: 'B', Sub: 'f', BF: []float32{0.5, -1}}, {Tag: "BC", Ty: 'B', Sub: 'C', BI: []int64{1, 2, 3, 4}},
		{Tag: "ZZ", Ty: 'Z', S: "text"}, {Tag: "Xi", Ty: 'i', I: -70000},
	} {
		small := sb.SpecBAMHeader([]byte("@SQ\tSN:c\tLN:1000\n"), oneRef)
		small = append(small, sb.SpecBAMRecord(sb.ARec{Name: "q", Ref: 0, Mate: -1, Pos: 3, MPos: -1, MapQ: 1, SeqLen: 2, SeqSeed: 5, Cigar: []sb.COp{{T: 0, L: 2}}, Aux: []sb.AAux{ax}})...)
		seeds["bam_payload"] = append(seeds["bam_payload"], small)
	}
	raw := bz.BuildFile([][]byte{payload[:len(payload)/2], payload[len(payload)/2:]}, 6, true).Bytes
	seeds["bam_raw"] = [][]byte{raw}
	seeds["bgzf"] = [][]byte{raw, bz.BuildFile([][]byte{[]byte("hello"), nil, []byte("world")}, 0, true).Bytes, bz.EOFMarker}
	// well-framed members (valid BSIZE, CRC32, ISIZE) that inflate to more than a
	// block may hold: 65281, 65536, 65537 and 70000 bytes, alone and after a normal member
	for _, n := range []int{0xff00 + 1, 1 << 16, 1<<16 + 1, 70000} {
		big := bz.EncodeMember(make([]byte, n), 6)
		seeds["bgzf"] = append(seeds["bgzf"], append(append([]byte(nil), big...), bz.EOFMarker...),
			append(append(bz.EncodeMember([]byte("first"), 6), big...), bz.EOFMarker...))
	}
	samText := string(text) + strings.Join(lines, "\n") + "\n"
	seeds["sam_reader"] = [][]byte{[]byte(samText), []byte(strings.Join(lines, "\n"))}
	for _, l := range lines {
		seeds["unmarshal_sam"] = append(seeds["unmarshal_sam"], []byte(l))
		for _, f := range strings.Split(l, "\t")[11:] {
			seeds["parse_aux"] = append(seeds["parse_aux"], []byte(f))
		}
	}
	seeds["parse_aux"] = append(seeds["parse_aux"], []byte("XH:H:1AE301"), []byte("XB:B:i,1,-2,3"), []byte("XB:B:C"))
	seeds["parse_cigar"] = [][]byte{[]byte("2S6M1D2M"), []byte("*"), []byte("10M5N10M3H"), []byte("268435455M"),
		// lengths beyond the 28-bit field are split by the parser: the split boundaries
		[]byte("268435456M"), []byte("536870911M"), []byte("536870910M"), []byte("4M268435457N4M"), []byte("805306366M")}
	seeds["header_text"] = [][]byte{text, []byte("@HD\tVN:1.0\n@SQ\tSN:a\tLN:1\n@SQ\tSN:a\tLN:1\tM5:0123456789abcdef0123456789abcdef\n@CO\tx\n")}
	seeds["header_binary"] = [][]byte{hdrBin}
	// indexes
	s := ix.Spec{NRefs: 3, MinShift: 14, Recs: []ix.IRec{{Ref: 0, Start: 100, End: 200, Mapped: true, Step: 40}, {Ref: 0, Start: 16000, End: 40000, Mapped: true, Step: -500}, {Ref: 2, Start: 5, End: 6, Step: 10}, {Ref: -1, Start: -1, Step: 10}}}
	layout := s.Layout()
	if b, err := ix.BuildBAI(s, layout); err == nil {
		d, _ := b.Write()
		seeds["bai"] = [][]byte{d}
	}
	if t, err := ix.BuildTBX(s, layout); err == nil {
		d, _ := t.Write()
		seeds["tabix"] = [][]byte{d}
	}
	tiny := ix.Spec{NRefs: 1, MinShift: 14, Recs: []ix.IRec{{Ref: 0, Start: 100, End: 200, Mapped: true, Step: 40}}}
	tl := tiny.Layout()
	if b, err := ix.BuildBAI(tiny, tl); err == nil {
		d, _ := b.Write()
		seeds["bai"] = append(seeds["bai"], d)
	}
	if t, err := ix.BuildTBX(tiny, tl); err == nil {
		d, _ := t.Write()
		seeds["tabix"] = append(seeds["tabix"], d)
	}
	tc := tiny
	tc.Depth = 5
	if c, err := ix.BuildCSI(tc, tl, 2, nil); err == nil {
		d, _ := c.Write()
		seeds["csi"] = append(seeds["csi"], d)
	}
	cs := s
	cs.Depth = 5
	for _, v := range []byte{1, 2} {
		if c, err := ix.BuildCSI(cs, layout, v, []byte("aux")); err == nil {
			d, _ := c.Write()
			seeds["csi"] = append(seeds["csi"], d)
		}
	}
	seeds["fai_read"] = [][]byte{[]byte("chr1\t50\t6\t10\t11\nchr2\t7\t70\t7\t8\n")}
	seeds["fai_new"] = [][]byte{[]byte(">chr1 desc\nACGTACGTAC\nACGTACGTAC\nACG\n>chr2\nAAAA\r\nCC\r\n")}
	seeds["itf_ltf"] = [][]byte{{0xff, 1, 2, 3, 4, 5, 6, 7, 8}, {0xf0, 1, 2, 3, 4}, {0x80, 1}}
}

func seedFor(target string) [][]byte {
	seedOnce.Do(buildSeeds)
	switch target {
	case "bgzf_rd1", "bgzf_rd2":
		return seeds["bgzf"]
	}
	return seeds[target]
}

// ---------------------------------------------------------------------------
// mutation

type Mut struct {
	K   string // flip set ins del dup trunc i32 i16 splice len32 tok
	Pos int
	Val int64
	N   int
}

var interesting32 = []int64{0, 1, -1, 2, 255, 256, 65535, 65536, 1 << 20, 1<<31 - 1, -(1 << 31), 100000}

func mutGen() *rapid.Generator[Mut] {
	return rapid.Custom(func(t *rapid.T) Mut {
		m := Mut{K: rapid.SampledFrom([]string{"flip", "flip", "set", "set", "ins", "del", "dup", "trunc", "i32", "i32", "i32", "i16", "splice", "len32", "len32", "len32", "tok", "tok"}).Draw(t, "k"),
			Pos: rapid.IntRange(0, 1<<16).Draw(t, "pos")}
		switch m.K {
		case "flip":
			m.Val = int64(1 << uint(rapid.IntRange(0, 7).Draw(t, "bit")))
		case "set":
			m.Val = int64(rapid.SampledFrom([]int{0, 1, 0x7f, 0x80, 0xff, '\t', '\n', '\r', ':', ',', '*', '@', '0', 'B', 'Z', 'H'}).Draw(t, "v"))
		case "ins", "del", "dup", "splice":
			m.N = rapid.IntRange(1, 12).Draw(t, "n")
			m.Val = int64(rapid.Byte().Draw(t, "fill"))
		case "len32":
			// Pos selects one of the 32-bit words that look like a length, count or offset; Val how to spoil it
			m.Val = int64(rapid.IntRange(0, len32Edits-1).Draw(t, "edit"))
			m.N = rapid.IntRange(0, 3).Draw(t, "anywhere") // 0: any position
		case "tok":
			m.Val = int64(rapid.IntRange(0, len(tokens)-1).Draw(t, "tok"))
			m.N = rapid.IntRange(0, 2).Draw(t, "snap") // non-zero: move to the next field or line boundary
		case "i32", "i16":
			m.Val = rapid.SampledFrom(interesting32).Draw(t, "iv")
			if rapid.Bool().Draw(t, "small") {
				m.Val = int64(rapid.IntRange(-3, 40).Draw(t, "ivs"))
			}
		}
		return m
	})
}

// tokens inserted by the "tok" mutation: separators, line ends and numbers at
// the edges of the integer types the text parsers use.
var tokens = []string{"\r\n", "\n\r\n", "\r", "\n", "\n\n", "\t", "\t\t", ":", "::", ",", ",,", "*", "@", "@CO\t", "@SQ\tSN:", "\tLN:", "@HD\t", "B:", "H:", "Z:", "i:", "f:",
	"-", "+", "2147483647", "2147483648", "4294967296", "-2147483649", "99999999999999999999", "0x1", "1e99", "NaN", "\x00", "=", "M", "268435456M"}

const len32Edits = 12

func spoil32(v uint32, edit int) uint32 {
	switch edit {
	case 0:
		return v | 1<<31
	case 1:
		return v | 1<<30
	case 2:
		return v | 3<<30
	case 3:
		return v | 1<<29
	case 4:
		return v + 1
	case 5:
		return v - 1
	case 6:
		return v * 2
	case 7:
		return 1<<31 - 1
	case 8:
		return 1 << 31
	case 9:
		return ^uint32(0)
	case 10:
		return v + 1<<16
	default:
		return 0
	}
}

// lengthLike lists the offsets whose little-endian 32-bit word is a small
// non-zero number: lengths, counts and offsets of the binary formats.
func lengthLike(b []byte) []int {
	var out []int
	lim := uint32(4*len(b) + 16)
	for p := 0; p+4 <= len(b); p++ {
		v := uint32(b[p]) | uint32(b[p+1])<<8 | uint32(b[p+2])<<16 | uint32(b[p+3])<<24
		if v != 0 && v <= lim {
			out = append(out, p)
		}
	}
	return out
}

func apply(b []byte, ms []Mut) []byte {
	b = append([]byte(nil), b...)
	for _, m := range ms {
		if len(b) == 0 {
			b = append(b, byte(m.Val))
			continue
		}
		p := m.Pos % len(b)
		switch m.K {
		case "flip":
			b[p] ^= byte(m.Val)
		case "set":
			b[p] = byte(m.Val)
		case "ins":
			ins := bytes.Repeat([]byte{byte(m.Val)}, m.N)
			b = append(b[:p], append(ins, b[p:]...)...)
		case "del":
			e := p + m.N
			if e > len(b) {
				e = len(b)
			}
			b = append(b[:p], b[e:]...)
		case "dup":
			e := p + m.N
			if e > len(b) {
				e = len(b)
			}
			seg := append([]byte(nil), b[p:e]...)
			b = append(b[:e], append(seg, b[e:]...)...)
		case "trunc":
			b = b[:p]
		case "len32":
			q := p
			if m.N != 0 {
				if c := lengthLike(b); len(c) > 0 {
					q = c[m.Pos%len(c)]
				}
			}
			if q+4 <= len(b) {
				v := spoil32(uint32(b[q])|uint32(b[q+1])<<8|uint32(b[q+2])<<16|uint32(b[q+3])<<24, int(m.Val))
				b[q], b[q+1], b[q+2], b[q+3] = byte(v), byte(v>>8), byte(v>>16), byte(v>>24)
			}
		case "tok":
			q := p
			if m.N != 0 {
				for q < len(b) && b[q] != '\n' && b[q] != '\t' {
					q++
				}
				if q < len(b) && m.N == 2 {
					q++ // after the separator: start of the next field or line
				}
			}
			tok := tokens[int(m.Val)%len(tokens)]
			b = append(b[:q], append([]byte(tok), b[q:]...)...)
		case "i32":
			if p+4 <= len(b) {
				v := uint32(m.Val)
				b[p], b[p+1], b[p+2], b[p+3] = byte(v), byte(v>>8), byte(v>>16), byte(v>>24)
			}
		case "i16":
			if p+2 <= len(b) {
				b[p], b[p+1] = byte(m.Val), byte(m.Val>>8)
			}
		case "splice":
			q := int(m.Val) * 7 % len(b)
			e := q + m.N
			if e > len(b) {
				e = len(b)
			}
			seg := append([]byte(nil), b[q:e]...)
			b = append(b[:p], append(seg, b[p:]...)...)
		}
	}
	return b
}

// ---- structured CRAM generator (correct CRCs so that the parser reaches its logic) ----

type CBlock struct {
	Method, Typ byte
	ContentID   int32
	CompSize    int32 // written value (may disagree with the data)
	RawSize     int32
	Data        h.Hex
	BadCRC      bool
}
type CContainer struct {
	Len                        int32 // written length; 0 = true length
	RefID, Start, Span, NRec   int32
	RecCount, Bases            int64
	NBlocks                    int32
	Landmarks                  []int32
	LandmarkCount              int32 // written count (may disagree); -9 = use len
	Blocks                     []CBlock
}
type CramSpec struct{ Containers []CContainer }

func putITF(b []byte, v int32) []byte {
	var buf [5]byte
	n := itf8.Encode(buf[:], v)
	return append(b, buf[:n]...)
}
func putLTF(b []byte, v int64) []byte {
	var buf [9]byte
	n := ltf8.Encode(buf[:], v)
	return append(b, buf[:n]...)
}

func (s CramSpec) Encode() []byte {
	out := append([]byte("CRAM\x03\x00"), make([]byte, 20)...)
	for _, c := range s.Containers {
		var body []byte
		for _, bl := range c.Blocks {
			var b []byte
			b = append(b, bl.Method, bl.Typ)
			b = putITF(b, bl.ContentID)
			b = putITF(b, bl.CompSize)
			b = putITF(b, bl.RawSize)
			b = append(b, bl.Data...)
			crc := crc32ieee(b)
			if bl.BadCRC {
				crc++
			}
			b = append(b, byte(crc), byte(crc>>8), byte(crc>>16), byte(crc>>24))
			body = append(body, b...)
		}
		l := c.Len
		if l == 0 {
			l = int32(len(body))
		}
		hd := []byte{byte(l), byte(l >> 8), byte(l >> 16), byte(l >> 24)}
		hd = putITF(hd, c.RefID)
		hd = putITF(hd, c.Start)
		hd = putITF(hd, c.Span)
		hd = putITF(hd, c.NRec)
		hd = putLTF(hd, c.RecCount)
		hd = putLTF(hd, c.Bases)
		hd = putITF(hd, c.NBlocks)
		n := c.LandmarkCount
		if n == -9 {
			n = int32(len(c.Landmarks))
		}
		hd = putITF(hd, n)
		for _, lm := range c.Landmarks {
			hd = putITF(hd, lm)
		}
		crc := crc32ieee(hd)
		hd = append(hd, byte(crc), byte(crc>>8), byte(crc>>16), byte(crc>>24))
		out = append(out, hd...)
		out = append(out, body...)
	}
	return out
}

func cramGen() *rapid.Generator[CramSpec] {
	hostile := []int32{0, 1, -1, 4, 5, 1 << 20, 1<<31 - 1, -(1 << 31)}
	i32 := func(t *rapid.T, label string, normal int32) int32 {
		if rapid.IntRange(0, 3).Draw(t, label+"?") == 0 {
			return rapid.SampledFrom(hostile).Draw(t, label)
		}
		return normal
	}
	return rapid.Custom(func(t *rapid.T) CramSpec {
		var s CramSpec
		nc := rapid.IntRange(1, 3).Draw(t, "nc")
		for i := 0; i < nc; i++ {
			c := CContainer{RefID: i32(t, "refid", -1), Start: i32(t, "start", 0), Span: i32(t, "span", 0), NRec: i32(t, "nrec", 1), NBlocks: i32(t, "nblocks", 1), LandmarkCount: -9}
			c.Landmarks = rapid.SliceOfN(rapid.Int32Range(0, 100), 0, 3).Draw(t, "landmarks")
			if rapid.IntRange(0, 4).Draw(t, "lmcount?") == 0 {
				c.LandmarkCount = rapid.SampledFrom(hostile).Draw(t, "lmcount")
			}
			if rapid.IntRange(0, 5).Draw(t, "len?") == 0 {
				c.Len = rapid.SampledFrom(hostile).Draw(t, "len")
			}
			nb := rapid.IntRange(0, 3).Draw(t, "nb")
			for j := 0; j < nb; j++ {
				data := rapid.SliceOfN(rapid.Byte(), 0, 40).Draw(t, "data")
				if rapid.IntRange(0, 2).Draw(t, "hdrtext") == 0 {
					txt := "@HD\tVN:1.6\n@SQ\tSN:c\tLN:5\n"
					data = append([]byte{byte(len(txt)), 0, 0, 0}, txt...)
					if rapid.Bool().Draw(t, "badend") {
						data[0] = byte(rapid.IntRange(0, 255).Draw(t, "end"))
						data[3] = byte(rapid.SampledFrom([]int{0, 0x7f, 0xff}).Draw(t, "endhi"))
					}
				}
				bl := CBlock{Method: byte(rapid.SampledFrom([]int{0, 0, 1, 2, 3, 4, 5, 200}).Draw(t, "method")), Typ: byte(rapid.SampledFrom([]int{0, 0, 1, 2, 3, 4, 5, 9}).Draw(t, "typ")), ContentID: i32(t, "cid", 0), Data: data}
				bl.CompSize = i32(t, "csize", int32(len(data)))
				bl.RawSize = bl.CompSize
				if rapid.IntRange(0, 4).Draw(t, "rawsize?") == 0 {
					bl.RawSize = i32(t, "rsize", int32(len(data)))
				}
				bl.BadCRC = rapid.IntRange(0, 9).Draw(t, "badcrc") == 0
				c.Blocks = append(c.Blocks, bl)
			}
			s.Containers = append(s.Containers, c)
		}
		return s
	})
}

func crc32ieee(b []byte) uint32 {
	crc := ^uint32(0)
	for _, x := range b {
		crc ^= uint32(x)
		for k := 0; k < 8; k++ {
			if crc&1 != 0 {
				crc = crc>>1 ^ 0xedb88320
			} else {
				crc >>= 1
			}
		}
	}
	return ^crc
}

// ---------------------------------------------------------------------------
// the property

type Case struct {
	Target string
	Seed   int
	Muts   []Mut
	Cram   *CramSpec
	Raw    h.Hex // if set: the exact input (replays of fuzz findings)
}

func draw(t *rapid.T) Case {
	names := make([]string, len(targets))
	for i, tg := range targets {
		names[i] = tg.Name
	}
	c := Case{Target: rapid.SampledFrom(names).Draw(t, "target")}
	if c.Target == "cram" && rapid.IntRange(0, 4).Draw(t, "structured") != 0 {
		s := cramGen().Draw(t, "cram")
		c.Cram = &s
	}
	c.Seed = rapid.IntRange(0, 31).Draw(t, "seed")
	c.Muts = rapid.SliceOfN(mutGen(), 0, 6).Draw(t, "muts")
	return c
}

func (c Case) input() []byte {
	if len(c.Raw) > 0 {
		return c.Raw
	}
	if c.Cram != nil {
		return apply(c.Cram.Encode(), c.Muts)
	}
	ss := seedFor(c.Target)
	if len(ss) == 0 {
		return apply(nil, c.Muts)
	}
	return apply(ss[c.Seed%len(ss)], c.Muts)
}

var (
	poolOnce sync.Once
	pool     *iso.Pool
)

func targetIndex(name string) int {
	for i, t := range targets {
		if t.Name == name {
			return i
		}
	}
	return -1
}

func run(c Case, rec *h.Rec) {
	poolOnce.Do(func() { pool = &iso.Pool{} })
	ti := targetIndex(c.Target)
	if ti < 0 {
		rec.Skip("unknown target")
		return
	}
	data := c.input()
	st, msg := pool.Run(ti, data, 3*time.Second)
	switch st {
	case iso.OK:
		rec.Class(c.Target)
		rec.NTIf(msg != "rejected")
		rec.ClassIf(msg != "rejected", c.Target+"_accepted")
	case iso.Oversize:
		rec.Skip("oversize_not_judged: the decoder asks for more memory than the limit")
	case iso.Panic:
		rec.Failf("decoder %s panicked on a %d-byte input: %s", c.Target, len(data), msg)
	case iso.Hang:
		rec.Failf("decoder %s did not return on a %d-byte input: %s", c.Target, len(data), head(msg, 60))
	case iso.Died:
		rec.Failf("decoder %s killed its process on a %d-byte input: %s", c.Target, len(data), head(msg, 30))
	}
}

func head(s string, n int) string {
	lines := strings.Split(s, "\n")
	if len(lines) > n {
		lines = lines[:n]
	}
	return strings.Join(lines, "\n")
}

func TestProp(t *testing.T) {
	if os.Getenv("VERIF_WORKER") != "" {
		t.Skip("worker process")
	}
	defer func() {
		if pool != nil {
			pool.Close()
		}
	}()
	h.Main(t, "C11", h.Rapid("mutated_encodings", h.Opt{Quick: 20000, Thorough: 300000}, draw, run))
}
