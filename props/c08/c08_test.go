// C08: BGZF output is spec-conformant, gzip-compatible, deterministic and EOF-marked.
package c08

import (
	"bytes"
	"fmt"
	"testing"
	"time"

	"github.com/biogo/hts/bgzf"
	"pgregory.net/rapid"

	"verif/internal/bz"
	"verif/internal/h"
)

type Case struct {
	S bz.Script
}

// ModTime values whose little-endian bytes put 42 43 02 00 ("BC\x02\x00")
// somewhere in the fixed gzip header (MTIME at 4..7, XFL at 8, OS at 9).
func hostileMTime(t *rapid.T, s *bz.Script) int64 {
	switch rapid.IntRange(0, 2).Draw(t, "align") {
	case 0: // bytes 4..7 = 42 43 02 00
		return 0x00024342
	case 1: // bytes 5..8 = 42 43 02 XFL(=00 for levels other than 1 and 9)
		if s.Level == 1 || s.Level == 9 {
			s.Level = 5
		}
		return int64(0x02434200 | rapid.IntRange(0, 255).Draw(t, "lo"))
	}
	// bytes 6..9 = 42 43 XFL(=02 at level 9) OS(=00)
	s.Level = 9
	s.Hdr.OS = 0
	return int64(0x43420000 | rapid.IntRange(0, 0xffff).Draw(t, "lo16"))
}

func latin1(t *rapid.T, label string, max int) string {
	rs := rapid.SliceOfN(rapid.IntRange(1, 255), 0, max).Draw(t, label)
	out := make([]rune, len(rs))
	for i, r := range rs {
		out[i] = rune(r)
	}
	return string(out)
}

func draw(t *rapid.T) Case {
	s := bz.ScriptGen(8, 2).Draw(t, "script")
	s.NoClose = rapid.IntRange(0, 4).Draw(t, "noclose") == 0
	if rapid.IntRange(0, 2).Draw(t, "hdr") != 0 {
		hd := &bz.Hdr{OS: -1}
		s.Hdr = hd
		if rapid.Bool().Draw(t, "name") {
			hd.Name = latin1(t, "namev", 12)
		}
		if rapid.Bool().Draw(t, "comment") {
			hd.Comment = latin1(t, "commentv", 12)
		}
		if rapid.Bool().Draw(t, "extra") {
			n := rapid.IntRange(1, 2).Draw(t, "nsub")
			for i := 0; i < n; i++ {
				id := [2]byte{byte(rapid.IntRange(0, 255).Draw(t, "si1")), byte(rapid.IntRange(0, 255).Draw(t, "si2"))}
				if id == [2]byte{'B', 'C'} {
					id[1] = 'D'
				}
				data := rapid.SliceOfN(rapid.Byte(), 0, 8).Draw(t, "subdata")
				if rapid.IntRange(0, 5).Draw(t, "bcInData") == 0 {
					data = []byte{'B', 'C', 2, 0, 9, 9}
				}
				hd.Extra = append(hd.Extra, bz.Sub{ID: id, Data: data})
			}
		}
		if rapid.Bool().Draw(t, "os") {
			hd.OS = rapid.SampledFrom([]int{0, 3, 11, 255}).Draw(t, "osv")
		}
		switch rapid.IntRange(0, 5).Draw(t, "mt") {
		case 0:
		case 1:
			hd.MTime = 1
		case 2:
			hd.MTime = 1 << 31
		case 3:
			hd.MTime = 1<<32 - 1
		case 4:
			hd.MTime = int64(rapid.Uint32().Draw(t, "mtv"))
		default:
			hd.MTime = hostileMTime(t, &s)
		}
	}
	return Case{S: s}
}

func run(c Case, rec *h.Rec) {
	o := c.S.Run(20 * time.Second)
	if o.Hung != "" {
		dl, where := h.Deadlocked("hts/bgzf")
		rec.Failf("writer call %s did not return (deadlock signature: %v)\n%s", o.Hung, dl, where)
		return
	}
	if o.Overflow {
		// a block did not fit: the writer said so. What it did write must still be
		// well-formed members, and the marker may only follow a Close that returned nil.
		if _, err := bz.Walk(o.Out); err != nil {
			rec.Failf("after ErrBlockOverflow the output is not a sequence of well-formed BGZF members: %v", err)
			return
		}
		if closedOK := !c.S.NoClose && o.Closed && o.CloseErr == nil; bz.HasMarker(o.Out) != closedOK {
			rec.Failf("after ErrBlockOverflow: output ends with the EOF marker: %v, closed without error: %v", bz.HasMarker(o.Out), closedOK)
			return
		}
		rec.Class("block_overflow_reported")
		return
	}
	if len(o.Errs) > 0 {
		rec.Failf("writer: %s", o.Errs[0])
		return
	}
	out := o.Out
	ms, err := bz.Walk(out)
	if err != nil {
		rec.Failf("output is not a sequence of well-formed BGZF members: %v (level %d, header %+v)", err, c.S.Level, c.S.Hdr)
		return
	}
	if got := bz.Concat(ms); !bytes.Equal(got, o.Model) {
		rec.Failf("members hold %d bytes of payload, %d were written (first difference at %d)", len(got), len(o.Model), firstDiff(got, o.Model))
		return
	}
	// header fields of every member
	for i, m := range ms {
		isMarker := !c.S.NoClose && i == len(ms)-1
		if isMarker {
			continue // checked byte for byte below
		}
		wantOS, wantName, wantComment, wantMT := byte(0xff), "", "", uint32(0)
		var wantSubs []bz.Sub
		if hd := c.S.Hdr; hd != nil {
			if hd.OS >= 0 {
				wantOS = byte(hd.OS)
			}
			wantName, wantComment = latin1Bytes(hd.Name), latin1Bytes(hd.Comment)
			wantMT = uint32(hd.MTime)
			wantSubs = hd.Extra
		}
		if m.OS != wantOS || m.Name != wantName || m.Comment != wantComment || m.MTime != wantMT {
			rec.Failf("member %d header: OS=%#x name=%q comment=%q mtime=%d, configured OS=%#x name=%q comment=%q mtime=%d", i, m.OS, m.Name, m.Comment, m.MTime, wantOS, wantName, wantComment, wantMT)
			return
		}
		var others []bz.Sub
		for _, s := range m.Subs {
			if s.ID != [2]byte{'B', 'C'} {
				others = append(others, s)
			}
		}
		if len(others) != len(wantSubs) {
			rec.Failf("member %d has %d extra sub-fields besides BC, %d configured", i, len(others), len(wantSubs))
			return
		}
		for k := range others {
			if others[k].ID != wantSubs[k].ID || !bytes.Equal(others[k].Data, wantSubs[k].Data) {
				rec.Failf("member %d extra sub-field %d differs from the configured one", i, k)
				return
			}
		}
	}
	// standard multi-member gzip decoder
	got, err := bz.GunzipAll(out)
	if err != nil || !bytes.Equal(got, o.Model) {
		rec.Failf("compress/gzip expands the output to %d bytes (err %v), %d were written", len(got), err, len(o.Model))
		return
	}
	// EOF marker <=> closed without error
	closedOK := !c.S.NoClose && o.Closed && o.CloseErr == nil
	if bz.HasMarker(out) != closedOK {
		rec.Failf("output ends with the EOF marker: %v, closed without error: %v", bz.HasMarker(out), closedOK)
		return
	}
	probe := bytes.NewReader(out)
	if len(out) > 0 {
		// HasEOF takes an io.ReaderAt: where the caller has read to does not matter
		probe.Seek(int64(len(out))*int64(c.S.Level+2)/13, 0)
	}
	has, herr := bgzf.HasEOF(probe)
	if has != closedOK || (closedOK && herr != nil) {
		rec.Failf("HasEOF = (%v,%v), closed without error: %v", has, herr, closedOK)
		return
	}
	if closedOK && (len(ms) == 0 || len(ms[len(ms)-1].Data) != 0) {
		rec.Failf("closed stream does not end with an empty block")
		return
	}
	// the library's own reader must accept what its writer produced
	if r, err := bgzf.NewReader(bytes.NewReader(out), 1); err == nil {
		var back bytes.Buffer
		_, err := back.ReadFrom(r)
		if err != nil || !bytes.Equal(back.Bytes(), o.Model) {
			rec.Failf("bgzf.Reader reads the writer's output as %d bytes (err %v), %d were written (header %+v level %d)", back.Len(), err, len(o.Model), c.S.Hdr, c.S.Level)
			return
		}
		r.Close()
	} else if len(out) > 0 {
		rec.Failf("bgzf.NewReader rejects the writer's output: %v (header %+v level %d)", err, c.S.Hdr, c.S.Level)
		return
	}
	// determinism: same script, one compressor
	if c.S.WC != 1 {
		s1 := c.S
		s1.WC = 1
		s1.Delays = nil
		o1 := s1.Run(20 * time.Second)
		if o1.Hung != "" || len(o1.Errs) > 0 {
			rec.Failf("re-run at wc=1 failed: %v %v", o1.Hung, o1.Errs)
			return
		}
		if !bytes.Equal(o1.Out, out) {
			rec.Failf("output depends on the writer concurrency: wc=%d gives %d bytes, wc=1 gives %d bytes (first difference at %d)", c.S.WC, len(out), len(o1.Out), firstDiff(out, o1.Out))
			return
		}
	}
	st := c.S.Classify(ms)
	rec.ClassIf(c.S.Hdr != nil, "non_default_header")
	rec.ClassIf(c.S.NoClose, "not_closed")
	rec.ClassIf(st.IncompressibleFull, "incompressible_full_block")
	rec.ClassIf(c.S.Hdr != nil && isHostile(c.S.Hdr.MTime), "modtime_with_BC_pattern")
	rec.NTIf(st.DataMembers >= 2 || c.S.Hdr != nil || c.S.NoClose)
}

func isHostile(mt int64) bool {
	return mt == 0x00024342 || mt>>8 == 0x024342 || mt>>16 == 0x4342
}

func latin1Bytes(s string) string {
	var b []byte
	for _, r := range s {
		b = append(b, byte(r))
	}
	return string(b)
}

func firstDiff(a, b []byte) int {
	for i := range a {
		if i >= len(b) || a[i] != b[i] {
			return i
		}
	}
	return len(a)
}

// member_size_edge: a full block of incompressible data plus gzip header
// settings sized so that the member comes out at 64 KiB-3 .. 64 KiB+4 bytes.
// Up to 65536 bytes the member is legal and must be written with BSIZE =
// length-1; one byte more cannot be expressed in BSIZE and must be refused
// with ErrBlockOverflow (no error: the stream would be malformed).
type ECase struct {
	Level  int
	WC     int
	Seed   uint64
	Short  int    // payload is BlockSize-Short bytes
	Target int    // wanted member size
	Via    string // name, comment, extra, mixed
	Flush  bool   // the block is sent by Flush (then Close) rather than by Close
}

func drawE(t *rapid.T) ECase {
	return ECase{
		Level:  rapid.SampledFrom([]int{-1, 0, 1, 2, 3, 5, 6, 9}).Draw(t, "level"),
		WC:     rapid.SampledFrom([]int{1, 2, 4}).Draw(t, "wc"),
		Seed:   uint64(rapid.IntRange(0, 1<<20).Draw(t, "seed")),
		Short:  rapid.SampledFrom([]int{0, 0, 0, 1, 7}).Draw(t, "short"),
		Target: 65536 + rapid.IntRange(-3, 4).Draw(t, "delta"),
		Via:    rapid.SampledFrom([]string{"name", "comment", "extra", "mixed"}).Draw(t, "via"),
		Flush:  rapid.Bool().Draw(t, "flush"),
	}
}

func pad(via string, n int) *bz.Hdr {
	hd := &bz.Hdr{OS: -1}
	str := func(k int) string { return string(bytes.Repeat([]byte{'n'}, k)) }
	switch {
	case n == 0:
		return hd
	case via == "name" && n >= 2:
		hd.Name = str(n - 1)
	case via == "comment" && n >= 2:
		hd.Comment = str(n - 1)
	case via == "mixed" && n >= 8:
		hd.Name = str(1)
		hd.Comment = str(1)
		hd.Extra = []bz.Sub{{ID: [2]byte{'X', 'Y'}, Data: bytes.Repeat([]byte{7}, n-8)}}
	case n >= 4:
		hd.Extra = []bz.Sub{{ID: [2]byte{'X', 'Y'}, Data: bytes.Repeat([]byte{7}, n-4)}}
	case n >= 2:
		hd.Name = str(n - 1)
	default:
		return nil // a single byte cannot be added
	}
	return hd
}

func runE(c ECase, rec *h.Rec) {
	ops := []bz.WOp{{K: "write", P: bz.Pay{Kind: 2, Seed: c.Seed, Len: bz.BlockSize - c.Short}}}
	if c.Flush {
		ops = append(ops, bz.WOp{K: "flush"})
	}
	base := bz.Script{Level: c.Level, WC: c.WC, Ops: ops}
	o0 := base.Run(20 * time.Second)
	if o0.Hung != "" || len(o0.Errs) > 0 {
		rec.Failf("plain run failed: %v %v", o0.Hung, o0.Errs)
		return
	}
	if o0.Overflow {
		rec.Skip("the block does not fit even with the default header")
		return
	}
	ms0, err := bz.Walk(o0.Out)
	if err != nil || len(ms0) < 1 {
		rec.Failf("plain run: output is not BGZF: %v", err)
		return
	}
	hd := pad(c.Via, c.Target-ms0[0].Size)
	if c.Target < ms0[0].Size || hd == nil {
		rec.Skip("target size below the unpadded member size")
		return
	}
	s := base
	s.Hdr = hd
	o := s.Run(20 * time.Second)
	if o.Hung != "" {
		rec.Failf("writer call %s did not return", o.Hung)
		return
	}
	if len(o.Errs) > 0 {
		rec.Failf("writer: %s", o.Errs[0])
		return
	}
	ms, werr := bz.Walk(o.Out)
	if c.Target <= 65536 {
		if o.Overflow {
			rec.Failf("a member of %d bytes (<= 64 KiB) was refused with ErrBlockOverflow (level %d)", c.Target, c.Level)
			return
		}
		if werr != nil {
			rec.Failf("member of %d bytes: output is not well-formed BGZF: %v", c.Target, werr)
			return
		}
		if len(ms) < 2 || ms[0].Size != c.Target || !bytes.Equal(bz.Concat(ms), o.Model) || !bz.HasMarker(o.Out) {
			rec.Failf("member of %d bytes: got %d members, first %d bytes long, marker %v", c.Target, len(ms), ms[0].Size, bz.HasMarker(o.Out))
			return
		}
		if got, err := bz.GunzipAll(o.Out); err != nil || !bytes.Equal(got, o.Model) {
			rec.Failf("member of %d bytes: compress/gzip gives %d bytes, err %v", c.Target, len(got), err)
			return
		}
		// the library's own reader must accept the largest legal member too
		for _, rd := range []int{1, 2} {
			r, err := bgzf.NewReader(bytes.NewReader(o.Out), rd)
			if err != nil {
				rec.Failf("member of %d bytes: bgzf.NewReader(rd=%d) rejects the writer's output: %v", c.Target, rd, err)
				return
			}
			var back bytes.Buffer
			_, err = back.ReadFrom(r)
			r.Close()
			if err != nil || !bytes.Equal(back.Bytes(), o.Model) {
				rec.Failf("member of %d bytes: bgzf.Reader(rd=%d) reads %d bytes (err %v), %d were written", c.Target, rd, back.Len(), err, len(o.Model))
				return
			}
		}
		rec.Class(fmt.Sprintf("legal_size_%d", c.Target))
	} else {
		if !o.Overflow {
			rec.Failf("a member of %d bytes (> 64 KiB, BSIZE cannot express it) was written without ErrBlockOverflow: Close returned %v, output %d bytes, walker: %v", c.Target, o.CloseErr, len(o.Out), werr)
			return
		}
		if werr != nil {
			rec.Failf("after ErrBlockOverflow the output is not well-formed BGZF: %v", werr)
			return
		}
		if o.Closed && o.CloseErr == nil {
			rec.Failf("a %d-byte member was dropped with ErrBlockOverflow, yet Close returned nil", c.Target)
			return
		}
		if bz.HasMarker(o.Out) {
			rec.Failf("a %d-byte member was dropped with ErrBlockOverflow, yet the output ends with the EOF marker", c.Target)
			return
		}
		rec.Class(fmt.Sprintf("refused_size_%d", c.Target))
	}
	rec.NTIf(true)
}

func TestProp(t *testing.T) {
	h.Main(t, "C08",
		h.Rapid("conformance", h.Opt{Quick: 3000, Thorough: 60000}, draw, run),
		h.Rapid("member_size_edge", h.Opt{Quick: 1500, Thorough: 30000}, drawE, runE),
	)
}

var _ = fmt.Sprint
