// C08: BGZF output is spec-conformant, gzip-compatible, deterministic and EOF-marked.
package c08

import (
	"bytes"
	"fmt"
	"testing"
	"time"

	"github.com/biogo/hts/bgzf"
	"pgregory.net/rapid"

	"verif/internal/bz"
	"verif/internal/h"
)

type Case struct {
	S bz.Script
}

// ModTime values whose little-endian bytes put 42 43 02 00 ("BC\x02\x00")
// somewhere in the fixed gzip header (MTIME at 4..7, XFL at 8, OS at 9).
func hostileMTime(t *rapid.T, s *bz.Script) int64 {
	switch rapid.IntRange(0, 2).Draw(t, "align") {
	case 0: // bytes 4..7 = 42 43 02 00
		return 0x00024342
	case 1: // bytes 5..8 = 42 43 02 XFL(=00 for levels other than 1 and 9)
		if s.Level == 1 || s.Level == 9 {
			s.Level = 5
		}
		return int64(0x02434200 | rapid.IntRange(0, 255).Draw(t, "lo"))
	}
	// bytes 6..9 = 42 43 XFL(=02 at level 9) OS(=00)
	s.Level = 9
	s.Hdr.OS = 0
	return int64(0x43420000 | rapid.IntRange(0, 0xffff).Draw(t, "lo16"))
}

func latin1(t *rapid.T, label string, max int) string {
	rs := rapid.SliceOfN(rapid.IntRange(1, 255), 0, max).Draw(t, label)
	out := make([]rune, len(rs))
	for i, r := range rs {
		out[i] = rune(r)
	}
	return string(out)
}

func draw(t *rapid.T) Case {
	s := bz.ScriptGen(8, 2).Draw(t, "script")
	s.NoClose = rapid.IntRange(0, 4).Draw(t, "noclose") == 0
	if rapid.IntRange(0, 2).Draw(t, "hdr") != 0 {
		hd := &bz.Hdr{OS: -1}
		s.Hdr = hd
		if rapid.Bool().Draw(t, "name") {
			hd.Name = latin1(t, "namev", 12)
		}
		if rapid.Bool().Draw(t, "comment") {
			hd.Comment = latin1(t, "commentv", 12)
		}
		if rapid.Bool().Draw(t, "extra") {
			n := rapid.IntRange(1, 2).Draw(t, "nsub")
			for i := 0; i < n; i++ {
				id := [2]byte{byte(rapid.IntRange(0, 255).Draw(t, "si1")), byte(rapid.IntRange(0, 255).Draw(t, "si2"))}
				if id == [2]byte{'B', 'C'} {
					id[1] = 'D'
				}
				data := rapid.SliceOfN(rapid.Byte(), 0, 8).Draw(t, "subdata")
				if rapid.IntRange(0, 5).Draw(t, "bcInData") == 0 {
					data = []byte{'B', 'C', 2, 0, 9, 9}
				}
				hd.Extra = append(hd.Extra, bz.Sub{ID: id, Data: data})
			}
		}
		if rapid.Bool().Draw(t, "os") {
			hd.OS = rapid.SampledFrom([]int{0, 3, 11, 255}).Draw(t, "osv")
		}
		switch rapid.IntRange(0, 5).Draw(t, "mt") {
		case 0:
		case 1:
			hd.MTime = 1
		case 2:
			hd.MTime = 1 << 31
		case 3:
			hd.MTime = 1<<32 - 1
		case 4:
			hd.MTime = int64(rapid.Uint32().Draw(t, "mtv"))
		default:
			hd.MTime = hostileMTime(t, &s)
		}
	}
	return Case{S: s}
}

func run(c Case, rec *h.Rec) {
	o := c.S.Run(20 * time.Second)
	if o.Hung != "" {
		dl, where := h.Deadlocked("hts/bgzf")
		rec.Failf("writer call %s did not return (deadlock signature: %v)\n%s", o.Hung, dl, where)
		return
	}
	if o.Overflow {
		rec.Skip("header settings make a block exceed 64 KiB (ErrBlockOverflow)")
		return
	}
	if len(o.Errs) > 0 {
		rec.Failf("writer: %s", o.Errs[0])
		return
	}
	out := o.Out
	ms, err := bz.Walk(out)
	if err != nil {
		rec.Failf("output is not a sequence of well-formed BGZF members: %v (level %d, header %+v)", err, c.S.Level, c.S.Hdr)
		return
	}
	if got := bz.Concat(ms); !bytes.Equal(got, o.Model) {
		rec.Failf("members hold %d bytes of payload, %d were written (first difference at %d)", len(got), len(o.Model), firstDiff(got, o.Model))
		return
	}
	// header fields of every member
	for i, m := range ms {
		isMarker := !c.S.NoClose && i == len(ms)-1
		if isMarker {
			continue // checked byte for byte below
		}
		wantOS, wantName, wantComment, wantMT := byte(0xff), "", "", uint32(0)
		var wantSubs []bz.Sub
		if hd := c.S.Hdr; hd != nil {
			if hd.OS >= 0 {
				wantOS = byte(hd.OS)
			}
			wantName, wantComment = latin1Bytes(hd.Name), latin1Bytes(hd.Comment)
			wantMT = uint32(hd.MTime)
			wantSubs = hd.Extra
		}
		if m.OS != wantOS || m.Name != wantName || m.Comment != wantComment || m.MTime != wantMT {
			rec.Failf("member %d header: OS=%#x name=%q comment=%q mtime=%d, configured OS=%#x name=%q comment=%q mtime=%d", i, m.OS, m.Name, m.Comment, m.MTime, wantOS, wantName, wantComment, wantMT)
			return
		}
		var others []bz.Sub
		for _, s := range m.Subs {
			if s.ID != [2]byte{'B', 'C'} {
				others = append(others, s)
			}
		}
		if len(others) != len(wantSubs) {
			rec.Failf("member %d has %d extra sub-fields besides BC, %d configured", i, len(others), len(wantSubs))
			return
		}
		for k := range others {
			if others[k].ID != wantSubs[k].ID || !bytes.Equal(others[k].Data, wantSubs[k].Data) {
				rec.Failf("member %d extra sub-field %d differs from the configured one", i, k)
				return
			}
		}
	}
	// standard multi-member gzip decoder
	got, err := bz.GunzipAll(out)
	if err != nil || !bytes.Equal(got, o.Model) {
		rec.Failf("compress/gzip expands the output to %d bytes (err %v), %d were written", len(got), err, len(o.Model))
		return
	}
	// EOF marker <=> closed without error
	closedOK := !c.S.NoClose && o.Closed && o.CloseErr == nil
	if bz.HasMarker(out) != closedOK {
		rec.Failf("output ends with the EOF marker: %v, closed without error: %v", bz.HasMarker(out), closedOK)
		return
	}
	has, herr := bgzf.HasEOF(bytes.NewReader(out))
	if has != closedOK || (closedOK && herr != nil) {
		rec.Failf("HasEOF = (%v,%v), closed without error: %v", has, herr, closedOK)
		return
	}
	if closedOK && (len(ms) == 0 || len(ms[len(ms)-1].Data) != 0) {
		rec.Failf("closed stream does not end with an empty block")
		return
	}
	// the library's own reader must accept what its writer produced
	if r, err := bgzf.NewReader(bytes.NewReader(out), 1); err == nil {
		var back bytes.Buffer
		_, err := back.ReadFrom(r)
		if err != nil || !bytes.Equal(back.Bytes(), o.Model) {
			rec.Failf("bgzf.Reader reads the writer's output as %d bytes (err %v), %d were written (header %+v level %d)", back.Len(), err, len(o.Model), c.S.Hdr, c.S.Level)
			return
		}
		r.Close()
	} else if len(out) > 0 {
		rec.Failf("bgzf.NewReader rejects the writer's output: %v (header %+v level %d)", err, c.S.Hdr, c.S.Level)
		return
	}
	// determinism: same script, one compressor
	if c.S.WC != 1 {
		s1 := c.S
		s1.WC = 1
		s1.Delays = nil
		o1 := s1.Run(20 * time.Second)
		if o1.Hung != "" || len(o1.Errs) > 0 {
			rec.Failf("re-run at wc=1 failed: %v %v", o1.Hung, o1.Errs)
			return
		}
		if !bytes.Equal(o1.Out, out) {
			rec.Failf("output depends on the writer concurrency: wc=%d gives %d bytes, wc=1 gives %d bytes (first difference at %d)", c.S.WC, len(out), len(o1.Out), firstDiff(out, o1.Out))
			return
		}
	}
	st := c.S.Classify(ms)
	rec.ClassIf(c.S.Hdr != nil, "non_default_header")
	rec.ClassIf(c.S.NoClose, "not_closed")
	rec.ClassIf(st.IncompressibleFull, "incompressible_full_block")
	rec.ClassIf(c.S.Hdr != nil && isHostile(c.S.Hdr.MTime), "modtime_with_BC_pattern")
	rec.NTIf(st.DataMembers >= 2 || c.S.Hdr != nil || c.S.NoClose)
}

func isHostile(mt int64) bool {
	return mt == 0x00024342 || mt>>8 == 0x024342 || mt>>16 == 0x4342
}

func latin1Bytes(s string) string {
	var b []byte
	for _, r := range s {
		b = append(b, byte(r))
	}
	return string(b)
}

func firstDiff(a, b []byte) int {
	for i := range a {
		if i >= len(b) || a[i] != b[i] {
			return i
		}
	}
	return len(a)
}

func TestProp(t *testing.T) {
	h.Main(t, "C08", h.Rapid("conformance", h.Opt{Quick: 3000, Thorough: 60000}, draw, run))
}

var _ = fmt.Sprint
