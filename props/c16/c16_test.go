// C16: coordinate arithmetic (End, Len, Bin, CIGAR lengths/validity, bin lists) matches the SAM/CSI specifications.
package c16

import (
	"fmt"
	"sort"
	"testing"

	"github.com/biogo/hts/bam"
	"github.com/biogo/hts/csi"
	"github.com/biogo/hts/sam"
	"pgregory.net/rapid"

	"verif/internal/h"
)

// ---- transliterations of the specifications ----

// SAM v1 section 5.3
func specReg2bin(beg, end int) int {
	end--
	switch {
	case beg>>14 == end>>14:
		return ((1<<15)-1)/7 + (beg >> 14)
	case beg>>17 == end>>17:
		return ((1<<12)-1)/7 + (beg >> 17)
	case beg>>20 == end>>20:
		return ((1<<9)-1)/7 + (beg >> 20)
	case beg>>23 == end>>23:
		return ((1<<6)-1)/7 + (beg >> 23)
	case beg>>26 == end>>26:
		return ((1<<3)-1)/7 + (beg >> 26)
	}
	return 0
}

func specReg2bins(beg, end int) []uint32 {
	end--
	list := []uint32{0}
	for k := 1 + (beg >> 26); k <= 1+(end>>26); k++ {
		list = append(list, uint32(k))
	}
	for k := 9 + (beg >> 23); k <= 9+(end>>23); k++ {
		list = append(list, uint32(k))
	}
	for k := 73 + (beg >> 20); k <= 73+(end>>20); k++ {
		list = append(list, uint32(k))
	}
	for k := 585 + (beg >> 17); k <= 585+(end>>17); k++ {
		list = append(list, uint32(k))
	}
	for k := 4681 + (beg >> 14); k <= 4681+(end>>14); k++ {
		list = append(list, uint32(k))
	}
	return list
}

// CSIv1 specification, reg2bin / reg2bins (C: `for (--end, l = depth; l > 0; --l, s += 3, t -= 1<<l*3)`).
func csiSpecReg2bin(beg, end int64, minShift, depth int) int64 {
	l, s := depth, minShift
	t := int64((1<<(uint(depth)*3) - 1) / 7)
	end--
	for l > 0 {
		if beg>>uint(s) == end>>uint(s) {
			return t + beg>>uint(s)
		}
		l--
		s += 3
		t -= 1 << (uint(l) * 3)
	}
	return 0
}

func csiSpecReg2bins(beg, end int64, minShift, depth int) []uint32 {
	var bins []uint32
	s := minShift + depth*3
	end--
	t := int64(0)
	for l := 0; l <= depth; l++ {
		b, e := t+beg>>uint(s), t+end>>uint(s)
		for i := b; i <= e; i++ {
			bins = append(bins, uint32(i))
		}
		s -= 3
		t += 1 << (uint(l) * 3)
	}
	return bins
}

func sameSet(a, b []uint32) bool {
	if len(a) != len(b) {
		return false
	}
	same := true
	for i := range a {
		if a[i] != b[i] {
			same = false
			break
		}
	}
	if same {
		return true
	}
	x := append([]uint32(nil), a...)
	y := append([]uint32(nil), b...)
	sort.Slice(x, func(i, j int) bool { return x[i] < x[j] })
	sort.Slice(y, func(i, j int) bool { return y[i] < y[j] })
	for i := range x {
		if x[i] != y[i] {
			return false
		}
	}
	return true
}

func contains(l []uint32, b uint32) bool {
	for _, x := range l {
		if x == b {
			return true
		}
	}
	return false
}

// ---- (a) record arithmetic ----

type Op struct {
	T byte // 0..9 = MIDNSHP=XB
	L int
}
type RCase struct {
	Pos    int
	Flags  uint16
	Cigar  []Op
	SeqLen int // length passed to IsValid: query length + Delta
	Delta  int
}

var opLens = []int{0, 1, 1, 2, 3, 5, 16, 100, 16383, 16384, 16385, 1 << 17, 1<<20 + 1, 1<<28 - 1}

func posGen() *rapid.Generator[int] {
	return rapid.Custom(func(t *rapid.T) int {
		switch rapid.IntRange(0, 4).Draw(t, "pk") {
		case 0:
			return rapid.IntRange(0, 1<<29-1).Draw(t, "pos")
		case 1: // tile edge
			k := rapid.IntRange(0, 1<<15-1).Draw(t, "tile")
			p := k<<14 + rapid.IntRange(-2, 2).Draw(t, "jit")
			if p < 0 {
				p = 0
			}
			return p
		case 2: // bin level edge
			lvl := rapid.SampledFrom([]uint{14, 17, 20, 23, 26}).Draw(t, "lvl")
			k := rapid.IntRange(0, (1<<29>>lvl)-1).Draw(t, "k")
			p := k<<lvl + rapid.IntRange(-2, 2).Draw(t, "jit")
			if p < 0 {
				p = 0
			}
			return p
		case 3:
			return rapid.IntRange(0, 40).Draw(t, "small")
		}
		return 1<<29 - 1 - rapid.IntRange(0, 40).Draw(t, "top")
	})
}

func opGen() *rapid.Generator[Op] {
	return rapid.Custom(func(t *rapid.T) Op {
		ty := byte(rapid.IntRange(0, 9).Draw(t, "type"))
		if ty == 9 && rapid.IntRange(0, 2).Draw(t, "keepB") != 0 {
			ty = 0
		}
		l := rapid.SampledFrom(opLens).Draw(t, "len")
		if rapid.Bool().Draw(t, "smallLen") {
			l = rapid.IntRange(0, 6).Draw(t, "l")
		}
		return Op{ty, l}
	})
}

func drawR(t *rapid.T) RCase {
	c := RCase{Pos: posGen().Draw(t, "pos")}
	c.Cigar = rapid.SliceOfN(opGen(), 0, 12).Draw(t, "cigar")
	fl := uint16(0)
	if rapid.IntRange(0, 3).Draw(t, "unmapped") == 0 {
		fl |= uint16(sam.Unmapped)
	}
	if rapid.IntRange(0, 3).Draw(t, "mateUnmapped") == 0 {
		fl |= uint16(sam.MateUnmapped)
	}
	fl |= rapid.Uint16().Draw(t, "otherFlags") &^ uint16(sam.Unmapped|sam.MateUnmapped) & 0xfff
	c.Flags = fl
	c.Delta = rapid.SampledFrom([]int{0, 0, 0, 0, 1, -1, 2}).Draw(t, "delta")
	return c
}

var qCons = [10]int{1, 1, 0, 0, 1, 0, 0, 1, 1, 0} // M I D N S H P = X B
var rCons = [10]int{1, 0, 1, 1, 0, 0, 0, 1, 1, 0} // B handled separately

func runR(c RCase, rec *h.Rec) {
	cig := make(sam.Cigar, len(c.Cigar))
	hasB := false
	var refLen, qLen int
	for i, o := range c.Cigar {
		cig[i] = sam.NewCigarOp(sam.CigarOpType(o.T), o.L)
		refLen += o.L * rCons[o.T]
		qLen += o.L * qCons[o.T]
		hasB = hasB || o.T == 9
	}
	seqLen := qLen + c.Delta
	if seqLen < 0 {
		seqLen = 0
	}
	r := &sam.Record{Name: "r", Pos: c.Pos, Flags: sam.Flags(c.Flags), Cigar: cig}
	// the record may belong to a reference (of any declared length: circular
	// genomes and hand-made headers put alignments past LN); none of the values
	// below is defined in terms of it
	switch c.Pos % 4 {
	case 1:
		r.Ref, _ = sam.NewReference("short", "", "", 1+c.Pos/2, nil, nil)
	case 2:
		r.Ref, _ = sam.NewReference("exact", "", "", c.Pos+1, nil, nil)
	case 3:
		r.Ref, _ = sam.NewReference("long", "", "", 1<<31-1, nil, nil)
	}
	unmapped := c.Flags&uint16(sam.Unmapped) != 0
	// End
	var wantEnd int
	switch {
	case unmapped || len(cig) == 0:
		wantEnd = c.Pos + 1
	case !hasB:
		wantEnd = c.Pos + refLen
	default:
		// documented extension: highest position reached while walking the CIGAR
		p, e := c.Pos, c.Pos
		for _, o := range c.Cigar {
			if o.T == 9 {
				p -= o.L
			} else {
				p += o.L * rCons[o.T]
			}
			if p > e {
				e = p
			}
		}
		wantEnd = e
	}
	if got := r.End(); got != wantEnd {
		rec.Failf("End() = %d, spec %d for pos %d flags %#x cigar %v", got, wantEnd, c.Pos, c.Flags, cig)
		return
	}
	if got := r.Len(); got != wantEnd-c.Pos {
		rec.Failf("Len() = %d, want %d for pos %d cigar %v", got, wantEnd-c.Pos, c.Pos, cig)
		return
	}
	if got := r.Start(); got != c.Pos {
		rec.Failf("Start() = %d, want %d", got, c.Pos)
		return
	}
	// Lengths
	gr, gq := cig.Lengths()
	if gr != refLen || gq != qLen {
		rec.Failf("Lengths() = (%d,%d), spec (%d,%d) for %v", gr, gq, refLen, qLen, cig)
		return
	}
	// IsValid
	valid := qLen == seqLen
	n := len(c.Cigar)
	for i, o := range c.Cigar {
		if o.T == 5 && i != 0 && i != n-1 {
			valid = false
		}
		if o.T == 4 {
			allH := func(ops []Op) bool {
				for _, x := range ops {
					if x.T != 5 {
						return false
					}
				}
				return true
			}
			if !allH(c.Cigar[:i]) && !allH(c.Cigar[i+1:]) {
				valid = false
			}
		}
	}
	if hasB {
		p := 0
		for _, o := range c.Cigar {
			if p < 0 && qCons[o.T] != 0 {
				valid = false
			}
			if o.T == 9 {
				p -= o.L
			} else {
				p += o.L * rCons[o.T]
			}
		}
	}
	if got := cig.IsValid(seqLen); got != valid {
		rec.Failf("Cigar(%v).IsValid(%d) = %v, spec %v", cig, seqLen, got, valid)
		return
	}
	// Bin
	both := c.Flags&uint16(sam.Unmapped|sam.MateUnmapped) == uint16(sam.Unmapped|sam.MateUnmapped)
	rec.ClassIf(both, "bin_both_unmapped_placed")
	switch {
	case c.Pos >= 1<<29:
		rec.Class("bin_start_beyond_indexable_range_not_asserted")
	case wantEnd <= c.Pos:
		rec.Class("bin_zero_reference_length_not_asserted")
	default:
		rec.ClassIf(wantEnd > 1<<29, "bin_end_beyond_2^29")
		if got, want := r.Bin(), specReg2bin(c.Pos, wantEnd); got != want {
			rec.Failf("Bin() = %d, spec reg2bin(%d,%d) = %d (cigar %v flags %#x)", got, c.Pos, wantEnd, want, cig, c.Flags)
			return
		}
	}
	mixes := false
	hasRef, hasNon := false, false
	for _, o := range c.Cigar {
		if o.L > 0 && rCons[o.T] != 0 {
			hasRef = true
		}
		if o.L > 0 && rCons[o.T] == 0 {
			hasNon = true
		}
	}
	mixes = hasRef && hasNon
	rec.ClassIf(hasB, "has_B")
	rec.ClassIf(unmapped, "unmapped")
	rec.ClassIf(valid, "cigar_valid")
	rec.ClassIf(c.Pos>>14 != (wantEnd-1)>>14, "straddles_tile")
	rec.NTIf(mixes || c.Pos>>14 != (wantEnd-1)>>14)
}

// both unmapped, unplaced: the specification's reg2bin(-1,0)
func unplacedBin(ctx *h.Ctx) {
	r := &sam.Record{Name: "u", Pos: -1, MatePos: -1, Flags: sam.Unmapped | sam.MateUnmapped | sam.Paired}
	rec := &h.Rec{}
	if got := r.Bin(); got != 4680 {
		rec.Failf("unplaced record with both unmapped flags: Bin()=%d, spec reg2bin(-1,0)=4680", got)
	}
	rec.NT()
	ctx.Case(map[string]any{"pos": -1, "flags": "unmapped|mateunmapped|paired"}, rec)
	r2 := &sam.Record{Name: "u", Pos: -1, MatePos: -1, Flags: sam.Unmapped | sam.MateUnmapped}
	rec2 := &h.Rec{}
	if got := r2.Bin(); got != 4680 {
		rec2.Failf("unplaced record with both unmapped flags: Bin()=%d, spec reg2bin(-1,0)=4680", got)
	}
	rec2.NT()
	ctx.Case(map[string]any{"pos": -1, "flags": "unmapped|mateunmapped"}, rec2)
}

// ---- (b) BAI bin functions ----

type ICase struct{ Beg, End int }

func checkBAI(c ICase, rec *h.Rec) {
	if got, want := bam.VerifBinFor(c.Beg, c.End), uint32(specReg2bin(c.Beg, c.End)); got != want {
		rec.Failf("BinFor(%d,%d) = %d, spec reg2bin = %d", c.Beg, c.End, got, want)
	}
}

func checkBAIBins(c ICase, rec *h.Rec) {
	got, want := bam.VerifOverlappingBinsFor(c.Beg, c.End), specReg2bins(c.Beg, c.End)
	if !sameSet(got, want) {
		rec.Failf("OverlappingBinsFor(%d,%d) = %v, spec reg2bins = %v", c.Beg, c.End, got, want)
	}
}

const nTiles = 1 << 15

func baiGrid(ctx *h.Ctx) {
	var evals, nt uint64
	defer func() { ctx.Bulk(evals, nt) }()
	tryPair := func(bt, et int) bool {
		// extreme positions inside the begin and end tiles
		for _, beg := range [2]int{bt << 14, bt<<14 + 16383} {
			for _, end := range [2]int{et<<14 + 1, (et + 1) << 14} {
				if end <= beg {
					continue
				}
				evals++
				if bt != et {
					nt++
				}
				if got, want := bam.VerifBinFor(beg, end), uint32(specReg2bin(beg, end)); got != want {
					rec := &h.Rec{}
					checkBAI(ICase{beg, end}, rec)
					ctx.Violation(ICase{beg, end}, rec.Msg())
					return false
				}
			}
		}
		return true
	}
	if ctx.Thorough() {
		for bt := 0; bt < nTiles; bt++ {
			if !ctx.Mine(bt) {
				continue
			}
			for et := bt; et < nTiles; et++ {
				if !tryPair(bt, et) {
					return
				}
			}
		}
		ctx.Sample(map[string]any{"enumerated": "all begin-tile <= end-tile pairs of the 2^15 tile grid, 4 extreme (beg,end) positions each"})
		ctx.MarkExhaustive()
		return
	}
	// quick: all pairs within 64 tiles of each other for every begin tile, all
	// power-of-two aligned spans, and a scrambled sample of far pairs.
	for bt := 0; bt < nTiles; bt++ {
		if !ctx.Mine(bt) {
			continue
		}
		for et := bt; et < nTiles && et < bt+64; et++ {
			if !tryPair(bt, et) {
				return
			}
		}
		for s := uint(6); s < 15; s++ {
			for _, et := range []int{(bt>>s+1)<<s - 1, (bt>>s + 1) << s, (bt>>s+1)<<s + 1} {
				if et >= bt && et < nTiles {
					if !tryPair(bt, et) {
						return
					}
				}
			}
		}
		x := h.Mix("c16", "far", bt)
		for i := 0; i < 48; i++ {
			x = x*6364136223846793005 + 1442695040888963407
			et := bt + int(x>>33)%(nTiles-bt)
			if !tryPair(bt, et) {
				return
			}
		}
	}
	ctx.Sample(map[string]any{"enumerated": "per begin tile: end tiles within 64, all power-of-two span edges +-1, 48 far end tiles; 4 extreme positions each"})
}

func baiBins(ctx *h.Ctx) {
	var evals, nt uint64
	defer func() { ctx.Bulk(evals, nt) }()
	try := func(beg, end int) bool {
		evals++
		if beg>>14 != (end-1)>>14 {
			nt++
		}
		got, want := bam.VerifOverlappingBinsFor(beg, end), specReg2bins(beg, end)
		if !sameSet(got, want) {
			rec := &h.Rec{}
			checkBAIBins(ICase{beg, end}, rec)
			ctx.Violation(ICase{beg, end}, rec.Msg())
			return false
		}
		return true
	}
	width := ctx.Pick(8, 40)
	for bt := 0; bt < nTiles; bt++ {
		if !ctx.Mine(bt) {
			continue
		}
		for w := 0; w <= width && bt+w < nTiles; w++ {
			et := bt + w
			if !try(bt<<14, et<<14+1) || !try(bt<<14+16383, (et+1)<<14) {
				return
			}
			if w > 0 && !try(bt<<14+16383, et<<14+1) {
				return
			}
		}
		for s := uint(3); s < 15; s++ {
			et := (bt>>s + 1) << s
			if et < nTiles && !try(bt<<14, et<<14+1) {
				return
			}
		}
		x := h.Mix("c16", "wide", bt)
		for i := 0; i < ctx.Pick(1, 40); i++ {
			x = x*6364136223846793005 + 1442695040888963407
			et := bt + int(x>>33)%(nTiles-bt)
			x = x*6364136223846793005 + 1442695040888963407
			beg := bt<<14 + int(x>>40)%16384
			x = x*6364136223846793005 + 1442695040888963407
			end := et<<14 + 1 + int(x>>40)%16384
			if end > beg && !try(beg, end) {
				return
			}
		}
	}
	ctx.Sample(map[string]any{"enumerated": fmt.Sprintf("per begin tile: spans of 0..%d tiles at extreme in-tile positions, power-of-two edges, random wide intervals", width)})
}

// pairs of overlapping intervals: bin(A) must be in bins(B)
type PCase struct{ A, B ICase }

func ivGen() *rapid.Generator[ICase] {
	return rapid.Custom(func(t *rapid.T) ICase {
		beg := posGen().Draw(t, "beg")
		var l int
		switch rapid.IntRange(0, 3).Draw(t, "lk") {
		case 0:
			l = rapid.IntRange(1, 40).Draw(t, "l")
		case 1:
			l = 16384 - beg%16384 + rapid.IntRange(-2, 2).Draw(t, "j")
		case 2:
			l = rapid.SampledFrom([]int{1 << 14, 1 << 17, 1<<17 + 1, 1 << 20, 1 << 23, 1 << 26, 1<<26 + 5}).Draw(t, "pl")
		default:
			l = rapid.IntRange(1, 1<<29).Draw(t, "ll")
		}
		if l < 1 {
			l = 1
		}
		end := beg + l
		if end > 1<<29 {
			end = 1 << 29
		}
		if end <= beg {
			end = beg + 1
		}
		return ICase{beg, end}
	})
}

func drawP(t *rapid.T) PCase {
	a := ivGen().Draw(t, "a")
	// b overlaps a: pick a point inside a and grow around it
	p := rapid.IntRange(a.Beg, a.End-1).Draw(t, "p")
	if rapid.Bool().Draw(t, "edge") {
		p = rapid.SampledFrom([]int{a.Beg, a.End - 1}).Draw(t, "pe")
	}
	lo := p - rapid.SampledFrom([]int{0, 0, 1, 5, 16384, 1 << 20}).Draw(t, "lo")
	hi := p + 1 + rapid.SampledFrom([]int{0, 0, 1, 5, 16384, 1 << 20}).Draw(t, "hi")
	if lo < 0 {
		lo = 0
	}
	if hi > 1<<29 {
		hi = 1 << 29
	}
	return PCase{a, ICase{lo, hi}}
}

func runP(c PCase, rec *h.Rec) {
	checkBAI(c.A, rec)
	checkBAIBins(c.B, rec)
	if rec.Failed() {
		return
	}
	if !(c.A.Beg < c.B.End && c.B.Beg < c.A.End) {
		rec.Skip("pair does not overlap")
		return
	}
	ba := bam.VerifBinFor(c.A.Beg, c.A.End)
	// a bin list belongs to the caller: enumerate B's, then A's, then look at B's
	listB := bam.VerifOverlappingBinsFor(c.B.Beg, c.B.End)
	keepB := append([]uint32(nil), listB...)
	_ = bam.VerifOverlappingBinsFor(c.A.Beg, c.A.End)
	if !sameSet(listB, keepB) {
		rec.Failf("the bin list of [%d,%d) changed when the list of [%d,%d) was enumerated: %v, it was %v", c.B.Beg, c.B.End, c.A.Beg, c.A.End, listB, keepB)
		return
	}
	if !contains(listB, ba) {
		rec.Failf("intervals [%d,%d) and [%d,%d) overlap but bin %d of the first is not in the bin list of the second once another list has been enumerated: %v", c.A.Beg, c.A.End, c.B.Beg, c.B.End, ba, listB)
		return
	}
	if !contains(bam.VerifOverlappingBinsFor(c.B.Beg, c.B.End), ba) {
		rec.Failf("intervals [%d,%d) and [%d,%d) overlap but bin %d of the first is not in the bin list of the second", c.A.Beg, c.A.End, c.B.Beg, c.B.End, ba)
		return
	}
	bb := bam.VerifBinFor(c.B.Beg, c.B.End)
	if !contains(bam.VerifOverlappingBinsFor(c.A.Beg, c.A.End), bb) {
		rec.Failf("intervals [%d,%d) and [%d,%d) overlap but bin %d of the second is not in the bin list of the first", c.A.Beg, c.A.End, c.B.Beg, c.B.End, bb)
		return
	}
	rec.NTIf(c.A.Beg>>14 != (c.A.End-1)>>14 || c.B.Beg>>14 != (c.B.End-1)>>14)
}

// ---- (c) CSI ----

type CCase struct {
	MinShift, Depth int
	A, B            [2]int64
}

func checkCSI(c CCase, rec *h.Rec) {
	ms, d := uint32(c.MinShift), uint32(c.Depth)
	for _, iv := range [][2]int64{c.A, c.B} {
		if got, want := csi.VerifReg2bin(iv[0], iv[1], ms, d), uint32(csiSpecReg2bin(iv[0], iv[1], c.MinShift, c.Depth)); got != want {
			rec.Failf("csi reg2bin(%d,%d,minShift=%d,depth=%d) = %d, spec %d", iv[0], iv[1], c.MinShift, c.Depth, got, want)
			return
		}
		if got, want := csi.VerifReg2bins(iv[0], iv[1], ms, d), csiSpecReg2bins(iv[0], iv[1], c.MinShift, c.Depth); !sameSet(got, want) {
			rec.Failf("csi reg2bins(%d,%d,minShift=%d,depth=%d) = %v, spec %v", iv[0], iv[1], c.MinShift, c.Depth, got, want)
			return
		}
	}
	if c.A[0] < c.B[1] && c.B[0] < c.A[1] {
		ba := csi.VerifReg2bin(c.A[0], c.A[1], ms, d)
		if !contains(csi.VerifReg2bins(c.B[0], c.B[1], ms, d), ba) {
			rec.Failf("csi(minShift=%d,depth=%d): [%d,%d) and [%d,%d) overlap but bin %d of the first is not in the bin list of the second", c.MinShift, c.Depth, c.A[0], c.A[1], c.B[0], c.B[1], ba)
		}
	}
}

func csiSmall(ctx *h.Ctx) {
	var evals, nt uint64
	defer func() { ctx.Bulk(evals, nt) }()
	maxRange := int64(ctx.Pick(64, 128))
	item := 0
	complete := true
	for depth := 0; depth <= 3; depth++ {
		for minShift := 0; minShift <= 7; minShift++ {
			R := int64(1) << uint(minShift+3*depth)
			if R > maxRange {
				continue
			}
			ms, d := uint32(minShift), uint32(depth)
			// precompute bins per interval
			type ent struct {
				b, e int64
				bin  uint32
				bins []uint32
			}
			var ivs []ent
			for b := int64(0); b < R; b++ {
				for e := b + 1; e <= R; e++ {
					ivs = append(ivs, ent{b, e, csi.VerifReg2bin(b, e, ms, d), csi.VerifReg2bins(b, e, ms, d)})
				}
			}
			for i, a := range ivs {
				item++
				if !ctx.Mine(item) {
					continue
				}
				evals++
				if got, want := a.bin, uint32(csiSpecReg2bin(a.b, a.e, minShift, depth)); got != want {
					c := CCase{minShift, depth, [2]int64{a.b, a.e}, [2]int64{a.b, a.e}}
					rec := &h.Rec{}
					checkCSI(c, rec)
					ctx.Violation(c, rec.Msg())
					return
				}
				if !sameSet(a.bins, csiSpecReg2bins(a.b, a.e, minShift, depth)) {
					c := CCase{minShift, depth, [2]int64{a.b, a.e}, [2]int64{a.b, a.e}}
					rec := &h.Rec{}
					checkCSI(c, rec)
					ctx.Violation(c, rec.Msg())
					return
				}
				_ = i
				for _, b := range ivs {
					if !(a.b < b.e && b.b < a.e) {
						continue
					}
					evals++
					nt++
					if !contains(b.bins, a.bin) {
						c := CCase{minShift, depth, [2]int64{a.b, a.e}, [2]int64{b.b, b.e}}
						rec := &h.Rec{}
						checkCSI(c, rec)
						ctx.Violation(c, rec.Msg())
						return
					}
				}
			}
		}
	}
	if complete {
		ctx.Sample(map[string]any{"enumerated": fmt.Sprintf("every (minShift,depth) with range 2^(minShift+3*depth) <= %d: all intervals vs spec, all overlapping interval pairs", maxRange)})
		ctx.MarkExhaustive()
	}
}

func drawC(t *rapid.T) CCase {
	// every geometry the index reader accepts: depth 0..10, coordinates below 2^62
	depth := rapid.IntRange(0, 10).Draw(t, "depth")
	minShift := rapid.IntRange(0, 40).Draw(t, "minShift")
	for minShift+3*depth > 62 {
		minShift--
	}
	if rapid.IntRange(0, 3).Draw(t, "default") == 0 {
		minShift, depth = 14, 5
	}
	R := int64(1) << uint(minShift+3*depth)
	iv := func(label string, around int64) [2]int64 {
		var beg int64
		switch rapid.IntRange(0, 3).Draw(t, label+"k") {
		case 0:
			beg = rapid.Int64Range(0, R-1).Draw(t, label+"beg")
		case 1: // level edge
			l := rapid.IntRange(0, depth).Draw(t, label+"lvl")
			s := uint(minShift + 3*l)
			k := rapid.Int64Range(0, (R>>s)-1).Draw(t, label+"kk")
			beg = k<<s + rapid.Int64Range(-2, 2).Draw(t, label+"j")
		case 2:
			beg = around + rapid.Int64Range(-3, 3).Draw(t, label+"near")
		default:
			beg = R - 1 - rapid.Int64Range(0, 10).Draw(t, label+"top")
		}
		if beg < 0 {
			beg = 0
		}
		if beg > R-1 {
			beg = R - 1
		}
		var l int64
		switch rapid.IntRange(0, 2).Draw(t, label+"lk") {
		case 0:
			l = rapid.Int64Range(1, 20).Draw(t, label+"l")
		case 1:
			s := uint(minShift + 3*rapid.IntRange(0, depth).Draw(t, label+"ll"))
			l = (1<<s - beg%(1<<s)) + rapid.Int64Range(-2, 2).Draw(t, label+"lj")
		default:
			l = rapid.Int64Range(1, R).Draw(t, label+"lr")
		}
		if l < 1 {
			l = 1
		}
		// keep the bin list below ~4000 entries (cost only; wide spans are covered at coarser minShift)
		if max := int64(3000) << uint(minShift); l > max {
			l = max
		}
		end := beg + l
		if end > R {
			end = R
		}
		return [2]int64{beg, end}
	}
	a := iv("a", 0)
	b := iv("b", a[0])
	if rapid.Bool().Draw(t, "forceOverlap") {
		p := rapid.Int64Range(a[0], a[1]-1).Draw(t, "p")
		b = [2]int64{p - rapid.Int64Range(0, 3).Draw(t, "bl"), p + 1 + rapid.Int64Range(0, 1<<uint(minShift)).Draw(t, "bh")}
		if b[0] < 0 {
			b[0] = 0
		}
		if b[1] > R {
			b[1] = R
		}
	}
	return CCase{minShift, depth, a, b}
}

func runC(c CCase, rec *h.Rec) {
	checkCSI(c, rec)
	s := uint(c.MinShift)
	rec.NTIf(c.Depth > 0 && (c.A[0]>>s != (c.A[1]-1)>>s || c.B[0]>>s != (c.B[1]-1)>>s))
	rec.ClassIf(c.A[0] < c.B[1] && c.B[0] < c.A[1], "overlapping_pair")
	rec.Class(fmt.Sprintf("depth%d", c.Depth))
	rec.ClassIf(c.MinShift+3*c.Depth > 32, "range_beyond_2^32")
}

func TestProp(t *testing.T) {
	h.Main(t, "C16",
		h.Rapid("record_arith", h.Opt{Quick: 400000, Thorough: 6000000}, drawR, runR),
		h.Enum("unplaced_bin", unplacedBin, func(c map[string]any, rec *h.Rec) {
			r := &sam.Record{Name: "u", Pos: -1, MatePos: -1, Flags: sam.Unmapped | sam.MateUnmapped}
			if got := r.Bin(); got != 4680 {
				rec.Failf("unplaced record: Bin()=%d, want 4680", got)
			}
		}),
		h.Enum("bai_binfor_grid", baiGrid, checkBAI),
		h.Enum("bai_binlist_grid", baiBins, checkBAIBins),
		h.Rapid("bai_overlap_pairs", h.Opt{Quick: 300000, Thorough: 5000000}, drawP, runP),
		h.Enum("csi_small_exhaustive", csiSmall, checkCSI),
		h.Rapid("csi_large", h.Opt{Quick: 300000, Thorough: 5000000}, drawC, runC),
	)
}
