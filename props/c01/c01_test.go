// C01: BGZF write -> read round trip is lossless for every write pattern and setting.
package c01

import (
	"bytes"
	"fmt"
	"io"
	"testing"
	"time"

	"github.com/biogo/hts/bgzf"
	"pgregory.net/rapid"

	"verif/internal/bz"
	"verif/internal/h"
)

type ROp struct {
	K string // read, byte
	N int    // read: buffer size; byte: number of ReadByte calls
}

type Case struct {
	S     bz.Script
	RD    int
	Reads []ROp
	Plain bool // the source is a plain io.Reader (a pipe, a socket): it cannot seek
}

func draw(t *rapid.T) Case {
	c := Case{S: bz.ScriptGen(10, 3).Draw(t, "script")}
	c.RD = rapid.SampledFrom([]int{0, 1, 2, 3, 4, 8}).Draw(t, "rd")
	c.Reads = rapid.SliceOfN(rapid.Custom(func(t *rapid.T) ROp {
		if rapid.IntRange(0, 3).Draw(t, "k") == 0 {
			return ROp{"byte", rapid.IntRange(1, 300).Draw(t, "nb")}
		}
		return ROp{"read", rapid.SampledFrom([]int{0, 1, 2, 7, 4095, 4096, bz.BlockSize - 1, bz.BlockSize, bz.BlockSize + 1, 100000, 1 << 20}).Draw(t, "n")}
	}), 1, 6).Draw(t, "reads")
	c.Plain = rapid.Bool().Draw(t, "plainReader")
	return c
}

func run(c Case, rec *h.Rec) {
	o := c.S.Run(20 * time.Second)
	if o.Hung != "" {
		dl, where := h.Deadlocked("hts/bgzf")
		rec.Failf("writer call %s did not return (deadlock signature: %v)\n%s", o.Hung, dl, where)
		return
	}
	if len(o.Errs) > 0 {
		rec.Failf("writer: %s", o.Errs[0])
		return
	}
	if o.Overflow {
		rec.Failf("writer reported ErrBlockOverflow with the default header")
		return
	}
	model := o.Model
	var msg string
	ok := h.Call(60*time.Second, func() { msg = readBack(o.Out, model, c) })
	if !ok {
		dl, where := h.Deadlocked("hts/bgzf")
		rec.Failf("reader did not finish within 60s (deadlock signature: %v)\n%s", dl, where)
		return
	}
	if msg != "" {
		rec.Failf("%s (level %d wc %d rd %d, %d bytes written, %d bytes of BGZF)", msg, c.S.Level, c.S.WC, c.RD, len(model), len(o.Out))
		return
	}
	// second decoder: the standard library
	if c.S.Level%2 == 0 || len(model) < 70000 {
		got, err := bz.GunzipAll(o.Out)
		if err != nil || !bytes.Equal(got, model) {
			rec.Failf("compress/gzip reads the output as %d bytes (err %v), %d were written", len(got), err, len(model))
			return
		}
	}
	ms, _ := bz.Walk(o.Out)
	st := c.S.Classify(ms)
	rec.ClassIf(st.ExactFill, "exact_fill")
	rec.ClassIf(st.Overflowing, "write_does_not_fit")
	rec.ClassIf(st.Spanning, "write_spans_blocks")
	rec.ClassIf(st.FlushOnEmpty, "flush_on_empty_block")
	rec.ClassIf(st.IncompressibleFull, "incompressible_full_block")
	rec.ClassIf(c.S.WC > 1 && st.DataMembers >= 3, "wc>1_and_>=3_members")
	rec.ClassIf(c.RD != 1, "read_ahead")
	rec.ClassIf(c.Plain, "source_cannot_seek")
	rec.NTIf(st.DataMembers >= 2 && (st.ExactFill || st.Overflowing || st.Spanning))
}

func readBack(out, model []byte, c Case) string {
	var src io.Reader = bytes.NewReader(out)
	if c.Plain {
		src = struct{ io.Reader }{src}
	}
	r, err := bgzf.NewReader(src, c.RD)
	if err != nil {
		return fmt.Sprintf("NewReader on the writer's output: %v", err)
	}
	pos := 0
	buf := make([]byte, 1<<20)
	ended := false
	for step := 0; !ended; step++ {
		if step > 10000000 {
			return "reader makes no progress"
		}
		op := c.Reads[step%len(c.Reads)]
		switch op.K {
		case "read":
			p := buf[:op.N]
			n, err := r.Read(p)
			rem := len(model) - pos
			want := op.N
			if rem < want {
				want = rem
			}
			if n != want {
				return fmt.Sprintf("Read(%d) at position %d returned n=%d err=%v, %d bytes remain", op.N, pos, n, err, rem)
			}
			if !bytes.Equal(p[:n], model[pos:pos+n]) {
				return fmt.Sprintf("Read(%d) at position %d returned wrong bytes (first difference at +%d)", op.N, pos, firstDiff(p[:n], model[pos:pos+n]))
			}
			pos += n
			switch {
			case n < op.N:
				if err != io.EOF {
					return fmt.Sprintf("short Read(%d)=%d at the end of the data returned err=%v, want io.EOF", op.N, n, err)
				}
				ended = true
			case err == io.EOF:
				if pos != len(model) {
					return fmt.Sprintf("Read(%d) reported io.EOF at position %d of %d", op.N, pos, len(model))
				}
				ended = true
			case err != nil:
				return fmt.Sprintf("Read(%d) at position %d: %v", op.N, pos-n, err)
			}
			if op.N == 0 && !ended {
				// a zero-length read makes no progress and need not notice the end: follow it with one ReadByte
				b, err := r.ReadByte()
				switch {
				case pos == len(model):
					if err != io.EOF {
						return fmt.Sprintf("ReadByte at the end of the data returned (%d,%v)", b, err)
					}
					ended = true
				case err != nil || b != model[pos]:
					return fmt.Sprintf("ReadByte at position %d returned (%#x,%v), want %#x", pos, b, err, model[pos])
				default:
					pos++
				}
			}
		case "byte":
			for k := 0; k < op.N && !ended; k++ {
				b, err := r.ReadByte()
				if pos == len(model) {
					if err != io.EOF {
						return fmt.Sprintf("ReadByte at the end of the data returned (%d,%v)", b, err)
					}
					ended = true
					break
				}
				if err == io.EOF && pos == len(model)-1 && b == model[pos] {
					pos++
					ended = true
					break
				}
				if err != nil {
					return fmt.Sprintf("ReadByte at position %d of %d: %v", pos, len(model), err)
				}
				if b != model[pos] {
					return fmt.Sprintf("ReadByte at position %d returned %#x, want %#x", pos, b, model[pos])
				}
				pos++
			}
		}
	}
	if pos != len(model) {
		return fmt.Sprintf("end of data reported at position %d of %d", pos, len(model))
	}
	for k := 0; k < 3; k++ {
		n, err := r.Read(buf[:10])
		if n != 0 || err != io.EOF {
			return fmt.Sprintf("Read after the end returned (%d,%v)", n, err)
		}
		b, err := r.ReadByte()
		if err != io.EOF {
			return fmt.Sprintf("ReadByte after the end returned (%d,%v)", b, err)
		}
	}
	if err := r.Close(); err != nil {
		return fmt.Sprintf("reader Close: %v", err)
	}
	return ""
}

func firstDiff(a, b []byte) int {
	for i := range a {
		if i >= len(b) || a[i] != b[i] {
			return i
		}
	}
	return len(a)
}

func TestProp(t *testing.T) {
	h.Main(t, "C01", h.Rapid("roundtrip", h.Opt{Quick: 4000, Thorough: 80000}, draw, run))
}
