// C07: header serialisation round trips and keeps identity invariants under edits.
package c07

import (
	"bytes"
	"fmt"
	"strings"
	"testing"
	"testing/iotest"
	"time"

	"github.com/biogo/hts/sam"
	"pgregory.net/rapid"

	"verif/internal/h"
	"verif/internal/sb"
)

// ---------------------------------------------------------------------------
// (a) API-built headers round trip through text and binary

type ACase struct{ H sb.HSpec }

func drawA(t *rapid.T) ACase { return ACase{H: sb.HSpecGen(0, 6).Draw(t, "header")} }

func tagsOf(f func(func(sam.Tag, string))) string {
	var sb bytes.Buffer
	f(func(t sam.Tag, v string) { fmt.Fprintf(&sb, "%s=%q;", t, v) })
	return sb.String()
}

// sameValues compares everything the public getters expose.
func sameValues(a, b *sam.Header) string {
	if a.Version != b.Version || a.SortOrder != b.SortOrder || a.GroupOrder != b.GroupOrder {
		return fmt.Sprintf("VN/SO/GO %q/%v/%v vs %q/%v/%v", a.Version, a.SortOrder, a.GroupOrder, b.Version, b.SortOrder, b.GroupOrder)
	}
	if tagsOf(a.Tags) != tagsOf(b.Tags) {
		return fmt.Sprintf("@HD tags %s vs %s", tagsOf(a.Tags), tagsOf(b.Tags))
	}
	if len(a.Refs()) != len(b.Refs()) || len(a.RGs()) != len(b.RGs()) || len(a.Progs()) != len(b.Progs()) || len(a.Comments) != len(b.Comments) {
		return fmt.Sprintf("counts %d/%d/%d/%d vs %d/%d/%d/%d", len(a.Refs()), len(a.RGs()), len(a.Progs()), len(a.Comments), len(b.Refs()), len(b.RGs()), len(b.Progs()), len(b.Comments))
	}
	for i, x := range a.Refs() {
		y := b.Refs()[i]
		if x.ID() != y.ID() || x.Name() != y.Name() || x.Len() != y.Len() || !bytes.Equal(x.MD5(), y.MD5()) || x.AssemblyID() != y.AssemblyID() || x.Species() != y.Species() || x.URI() != y.URI() || tagsOf(x.Tags) != tagsOf(y.Tags) {
			return fmt.Sprintf("reference %d: %s vs %s", i, x, y)
		}
	}
	for i, x := range a.RGs() {
		y := b.RGs()[i]
		if x.ID() != y.ID() || x.Name() != y.Name() || x.Library() != y.Library() || x.PlatformUnit() != y.PlatformUnit() || tagsOf(x.Tags) != tagsOf(y.Tags) {
			return fmt.Sprintf("read group %d: %s vs %s", i, x, y)
		}
		tx, ty := x.Time(), y.Time()
		_, ox := tx.Zone()
		_, oy := ty.Zone()
		if !tx.Equal(ty) || (!tx.IsZero() && ox != oy) {
			return fmt.Sprintf("read group %d date %v vs %v", i, tx, ty)
		}
	}
	for i, x := range a.Progs() {
		y := b.Progs()[i]
		if x.ID() != y.ID() || x.UID() != y.UID() || x.Name() != y.Name() || x.Command() != y.Command() || x.Previous() != y.Previous() || x.Version() != y.Version() || tagsOf(x.Tags) != tagsOf(y.Tags) {
			return fmt.Sprintf("program %d: %s vs %s", i, x, y)
		}
	}
	for i := range a.Comments {
		if a.Comments[i] != b.Comments[i] {
			return fmt.Sprintf("comment %d %q vs %q", i, a.Comments[i], b.Comments[i])
		}
	}
	return ""
}

// roundTrip checks text and binary serialisation of hd.
func roundTrip(hd *sam.Header, refsForSpec []sb.RefSpec) string {
	t1, err := hd.MarshalText()
	if err != nil {
		return "MarshalText: " + err.Error()
	}
	keepT := append([]byte(nil), t1...)
	h2, err := sam.NewHeader(t1, nil)
	if err != nil {
		return fmt.Sprintf("the text MarshalText produced is rejected: %v\n%q", err, t1)
	}
	t2, _ := h2.MarshalText()
	if !bytes.Equal(t1, t2) {
		return fmt.Sprintf("text changes after parse/format:\n%q\n%q", t1, t2)
	}
	if msg := sameValues(hd, h2); msg != "" {
		return "after a text round trip: " + msg
	}
	b1, err := hd.MarshalBinary()
	if err != nil {
		return "MarshalBinary: " + err.Error()
	}
	keepB := append([]byte(nil), b1...)
	// what a Marshal call returned belongs to the caller: marshalling another
	// header must not change it
	decoy, _ := sam.NewHeader([]byte("@HD\tVN:1.6\tSO:queryname\n@SQ\tSN:decoy\tLN:7\n@CO\tdecoy\n"), nil)
	if decoy != nil {
		decoy.MarshalBinary()
		decoy.MarshalText()
	}
	if !bytes.Equal(t1, keepT) {
		return fmt.Sprintf("the text MarshalText returned changed when another header was marshalled:\n%q\n%q", keepT, t1)
	}
	if !bytes.Equal(b1, keepB) {
		return fmt.Sprintf("the bytes MarshalBinary returned changed when another header was marshalled (first difference at %d)", firstDiff(keepB, b1))
	}
	// the binary form read from a source that delivers it in pieces
	var h4 sam.Header
	if err := h4.DecodeBinary(iotest.OneByteReader(bytes.NewReader(b1))); err != nil {
		return fmt.Sprintf("DecodeBinary from a reader that returns one byte per call: %v", err)
	}
	if b4, _ := h4.MarshalBinary(); !bytes.Equal(b4, keepB) {
		return fmt.Sprintf("binary changes after DecodeBinary from a reader in pieces (first difference at %d)", firstDiff(keepB, b4))
	}
	if refsForSpec != nil {
		if want := sb.SpecBAMHeader(t1, refsForSpec); !bytes.Equal(b1, want) {
			return fmt.Sprintf("binary header differs from the SAM 4.2 layout at byte %d (lengths %d vs %d)", firstDiff(b1, want), len(b1), len(want))
		}
	}
	h3, _ := sam.NewHeader(nil, nil)
	if err := h3.UnmarshalBinary(b1); err != nil {
		return fmt.Sprintf("the binary MarshalBinary produced is rejected: %v", err)
	}
	b3, _ := h3.MarshalBinary()
	if !bytes.Equal(b1, b3) {
		t3, _ := h3.MarshalText()
		return fmt.Sprintf("binary changes after decode/encode (first difference at %d):\n%q\n%q", firstDiff(b1, b3), t1, t3)
	}
	if msg := sameValues(hd, h3); msg != "" {
		return "after a binary round trip: " + msg
	}
	return ""
}

func firstDiff(a, b []byte) int {
	for i := range a {
		if i >= len(b) || a[i] != b[i] {
			return i
		}
	}
	return len(a)
}

func runA(c ACase, rec *h.Rec) {
	hd, err := c.H.Build()
	if err != nil {
		rec.Failf("building the header through the API: %v", err)
		return
	}
	if msg := roundTrip(hd, c.H.Refs); msg != "" {
		rec.Failf("%s", msg)
		return
	}
	opt := false
	for _, r := range c.H.Refs {
		opt = opt || r.MD5 != "" || r.URI != "" || len(r.Tags) > 0
	}
	dates := false
	for _, g := range c.H.RGs {
		dates = dates || g.HasDate
	}
	rec.ClassIf(dates, "read_group_dates")
	rec.ClassIf(c.H.Version == "", "no_HD_line")
	rec.NTIf(len(c.H.Refs) >= 1 && (opt || dates) && len(c.H.RGs)+len(c.H.Progs) >= 1)
}

// ---------------------------------------------------------------------------
// (b) edit histories

type Op struct {
	K string
	H int // header index (mod live headers)
	I int // item index (mod items)
	N int // name index into the pool
	L int // length
}

type BCase struct {
	H   sb.HSpec
	Ops []Op
}

var rgTime = time.Unix(1500000000, 0).UTC()

var pool = []string{"n0", "n1", "n2", "n3", "n4", "n5"}

var kinds = []string{"addref", "addref", "addref_clone", "addref_difflen", "addref_md5", "rmref", "rmref", "setname", "readd_ref",
	"addrg", "rmrg", "setrgname", "addpg", "rmpg", "setuid", "clone", "merge", "rm_foreign", "unmarshal_restate", "unmarshal_sq", "unmarshal_rg", "unmarshal_pg", "unmarshal_co", "reparse"}

func drawB(t *rapid.T) BCase {
	c := BCase{H: sb.HSpecGen(0, 3).Draw(t, "header")}
	// use pool names so that collisions happen
	for i := range c.H.Refs {
		c.H.Refs[i].Name = pool[i]
	}
	c.Ops = rapid.SliceOfN(rapid.Custom(func(t *rapid.T) Op {
		return Op{
			K: rapid.SampledFrom(kinds).Draw(t, "k"),
			H: rapid.IntRange(0, 3).Draw(t, "h"),
			I: rapid.IntRange(0, 5).Draw(t, "i"),
			N: rapid.IntRange(0, len(pool)-1).Draw(t, "n"),
			L: rapid.SampledFrom([]int{100, 100, 200}).Draw(t, "l"),
		}
	}), 1, 25).Draw(t, "ops")
	return c
}

type world struct {
	hs       []*sam.Header
	freeRefs []*sam.Reference
	freeRGs  []*sam.ReadGroup
	freePGs  []*sam.Program
}

func invariants(hd *sam.Header) string {
	names := map[string]bool{}
	for i, r := range hd.Refs() {
		if r == nil {
			return fmt.Sprintf("reference %d is nil", i)
		}
		if r.ID() != i {
			return fmt.Sprintf("reference %d (%q) has id %d", i, r.Name(), r.ID())
		}
		if names[r.Name()] {
			return fmt.Sprintf("reference name %q occurs twice", r.Name())
		}
		names[r.Name()] = true
	}
	names = map[string]bool{}
	for i, g := range hd.RGs() {
		if g.ID() != i {
			return fmt.Sprintf("read group %d (%q) has id %d", i, g.Name(), g.ID())
		}
		if names[g.Name()] {
			return fmt.Sprintf("read group name %q occurs twice", g.Name())
		}
		names[g.Name()] = true
	}
	names = map[string]bool{}
	for i, p := range hd.Progs() {
		if p.ID() != i {
			return fmt.Sprintf("program %d (%q) has id %d", i, p.UID(), p.ID())
		}
		if names[p.UID()] {
			return fmt.Sprintf("program id %q occurs twice", p.UID())
		}
		names[p.UID()] = true
	}
	return ""
}

func runB(c BCase, rec *h.Rec) {
	h0, err := c.H.Build()
	if err != nil {
		rec.Failf("building the header: %v", err)
		return
	}
	w := &world{hs: []*sam.Header{h0}}
	removeThenAdd, mergeShared := false, false
	removed := false
	trace := []string{}
	for i, op := range c.Ops {
		hd := w.hs[op.H%len(w.hs)]
		what := fmt.Sprintf("op %d %s(h%d,i%d,%s,len %d)", i, op.K, op.H%len(w.hs), op.I, pool[op.N], op.L)
		var opErr error
		failed := false
		h.Safe(rec, what+" ["+fmt.Sprint(trace)+"]", func() {
			switch op.K {
			case "addref", "addref_difflen", "addref_md5":
				var md5 []byte
				if op.K == "addref_md5" {
					md5 = bytes.Repeat([]byte{byte(op.L)}, 16)
				}
				name := pool[op.N]
				l := op.L
				if op.K != "addref" && len(hd.Refs()) > 0 {
					ex := hd.Refs()[op.I%len(hd.Refs())]
					name = ex.Name()
					if op.K == "addref_difflen" {
						l = ex.Len() + 1
					} else {
						l = ex.Len()
					}
				}
				r, err := sam.NewReference(name, "", "", l, md5, nil)
				if err != nil {
					opErr = err
					return
				}
				if op.K == "addref" && op.I%3 == 0 {
					// a tag the library stores verbatim: same-named references of
					// different headers then differ in their extra tags
					r.Set(sam.NewTag("AN"), "alt"+pool[op.N])
				}
				opErr = hd.AddReference(r)
				if opErr == nil && removed {
					removeThenAdd = true
				}
			case "addref_clone":
				if len(hd.Refs()) == 0 {
					return
				}
				opErr = hd.AddReference(hd.Refs()[op.I%len(hd.Refs())].Clone())
			case "rmref":
				if len(hd.Refs()) == 0 {
					return
				}
				r := hd.Refs()[op.I%len(hd.Refs())]
				opErr = hd.RemoveReference(r)
				if opErr == nil {
					w.freeRefs = append(w.freeRefs, r)
					removed = true
				}
			case "rm_foreign":
				// an item that belongs to ANOTHER live header (a clone holds items with
				// the same names and ids): the call must be refused and change nothing
				if len(w.hs) < 2 {
					return
				}
				other := w.hs[(op.H+1+op.I)%len(w.hs)]
				if other == hd {
					return
				}
				before, _ := hd.MarshalText()
				otherBefore, _ := other.MarshalText()
				var err error
				switch op.N % 3 {
				case 0:
					if len(other.Refs()) == 0 {
						return
					}
					err = hd.RemoveReference(other.Refs()[op.I%len(other.Refs())])
				case 1:
					if len(other.RGs()) == 0 {
						return
					}
					err = hd.RemoveReadGroup(other.RGs()[op.I%len(other.RGs())])
				default:
					if len(other.Progs()) == 0 {
						return
					}
					err = hd.RemoveProgram(other.Progs()[op.I%len(other.Progs())])
				}
				after, _ := hd.MarshalText()
				otherAfter, _ := other.MarshalText()
				if err == nil || !bytes.Equal(before, after) || !bytes.Equal(otherBefore, otherAfter) {
					rec.Failf("%s: removing an item that belongs to another header returned %v (header changed: %v, other header changed: %v)", what, err, !bytes.Equal(before, after), !bytes.Equal(otherBefore, otherAfter))
					failed = true
					return
				}
				opErr = err
			case "readd_ref":
				if len(w.freeRefs) == 0 {
					return
				}
				opErr = hd.AddReference(w.freeRefs[op.I%len(w.freeRefs)])
				if opErr == nil {
					removeThenAdd = true
				}
			case "setname":
				if len(hd.Refs()) == 0 {
					return
				}
				opErr = hd.Refs()[op.I%len(hd.Refs())].SetName(pool[op.N])
			case "addrg":
				g, err := sam.NewReadGroup(pool[op.N], "", "", "lib", "", "", "", "", "", "", rgTime, op.L)
				if err != nil {
					opErr = err
					return
				}
				opErr = hd.AddReadGroup(g)
				if opErr == nil && removed {
					removeThenAdd = true
				}
			case "rmrg":
				if len(hd.RGs()) == 0 {
					return
				}
				g := hd.RGs()[op.I%len(hd.RGs())]
				opErr = hd.RemoveReadGroup(g)
				if opErr == nil {
					w.freeRGs = append(w.freeRGs, g)
					removed = true
				}
			case "setrgname":
				if len(hd.RGs()) == 0 {
					return
				}
				opErr = hd.RGs()[op.I%len(hd.RGs())].SetName(pool[op.N])
			case "addpg":
				opErr = hd.AddProgram(sam.NewProgram(pool[op.N], "prog", "", "", ""))
				if opErr == nil && removed {
					removeThenAdd = true
				}
			case "rmpg":
				if len(hd.Progs()) == 0 {
					return
				}
				p := hd.Progs()[op.I%len(hd.Progs())]
				opErr = hd.RemoveProgram(p)
				if opErr == nil {
					w.freePGs = append(w.freePGs, p)
					removed = true
				}
			case "setuid":
				if len(hd.Progs()) == 0 {
					return
				}
				opErr = hd.Progs()[op.I%len(hd.Progs())].SetUID(pool[op.N])
			case "clone":
				if len(w.hs) < 4 {
					w.hs = append(w.hs, hd.Clone())
				}
			case "merge":
				src := w.hs
				if len(src) > 3 {
					src = src[:3]
				}
				if len(src) < 2 {
					return
				}
				shared := false
				seen := map[string]bool{}
				for _, s := range src {
					for _, r := range s.Refs() {
						if seen[r.Name()] {
							shared = true
						}
					}
					for _, r := range s.Refs() {
						seen[r.Name()] = true
					}
				}
				m, links, err := sam.MergeHeaders(src)
				opErr = err
				if err != nil {
					return
				}
				if shared {
					mergeShared = true
				}
				if msg := invariants(m); msg != "" {
					rec.Failf("%s: merged header: %s", what, msg)
					failed = true
					return
				}
				for si, s := range src {
					if links == nil {
						break
					}
					if len(links[si]) != len(s.Refs()) {
						rec.Failf("%s: source %d has %d references, its link table %d", what, si, len(s.Refs()), len(links[si]))
						failed = true
						return
					}
					for ri, r := range s.Refs() {
						l := links[si][ri]
						if l == nil {
							rec.Failf("%s: source %d reference %q maps to nil", what, si, r.Name())
							failed = true
							return
						}
						id := l.ID()
						if id < 0 || id >= len(m.Refs()) || m.Refs()[id] != l {
							rec.Failf("%s: source %d reference %q maps to a reference (id %d) that the merged header does not own", what, si, r.Name(), id)
							failed = true
							return
						}
						if l.Name() != r.Name() || l.Len() != r.Len() {
							rec.Failf("%s: source %d reference %q/%d maps to %q/%d", what, si, r.Name(), r.Len(), l.Name(), l.Len())
							failed = true
							return
						}
					}
				}
				if len(w.hs) < 4 {
					w.hs = append(w.hs, m)
				}
			case "unmarshal_sq":
				opErr = hd.UnmarshalText([]byte(fmt.Sprintf("@SQ\tSN:%s\tLN:%d\n", pool[op.N], op.L)))
			case "unmarshal_restate":
				// several lines in one call: the first restates a reference the header
				// holds, in the header's own words (accepted, nothing to do), the others are new
				if len(hd.Refs()) == 0 {
					return
				}
				ex := hd.Refs()[op.I%len(hd.Refs())]
				fresh := fmt.Sprintf("x%d_%d", i, op.I)
				before := len(hd.Refs())
				opErr = hd.UnmarshalText([]byte(fmt.Sprintf("%s\n@SQ\tSN:%s\tLN:%d\n@RG\tID:%s\tLB:x\n", ex.String(), fresh, op.L, fresh)))
				// (the library may refuse the restatement itself - line 1 - when the
				// reference carries detail; what it must not do is accept it and then
				// refuse the new, valid lines that follow)
				if opErr != nil && !strings.Contains(opErr.Error(), "line 1:") || opErr == nil && len(hd.Refs()) != before+1 {
					rec.Failf("%s: UnmarshalText of a restated @SQ line followed by a new @SQ and a new @RG line returned %v and left %d references (were %d)", what, opErr, len(hd.Refs()), before)
					failed = true
					return
				}
			case "unmarshal_rg":
				opErr = hd.UnmarshalText([]byte(fmt.Sprintf("@RG\tID:%s\tLB:x\n", pool[op.N])))
			case "unmarshal_pg":
				opErr = hd.UnmarshalText([]byte(fmt.Sprintf("@PG\tID:%s\tPN:y\n", pool[op.N])))
			case "unmarshal_co":
				opErr = hd.UnmarshalText([]byte("@CO\tcomment " + pool[op.N] + "\n"))
			case "reparse":
				t1, _ := hd.MarshalText()
				h2, err := sam.NewHeader(t1, nil)
				if err != nil {
					rec.Failf("%s: the header's own text is rejected: %v\n%q", what, err, t1)
					failed = true
					return
				}
				w.hs[op.H%len(w.hs)] = h2
			}
		})
		if rec.Failed() || failed {
			return
		}
		e := "ok"
		if opErr != nil {
			e = "err"
			rec.Class("op_returned_error")
		}
		trace = append(trace, fmt.Sprintf("%s(h%d,i%d,%s)=%s", op.K, op.H%len(w.hs), op.I, pool[op.N], e))
		for hi, x := range w.hs {
			if msg := invariants(x); msg != "" {
				rec.Failf("after %s on header %d: %s; history: %v", what, hi, msg, trace)
				return
			}
			var msg string
			h.Safe(rec, "round trip after "+what, func() { msg = roundTrip(x, nil) })
			if rec.Failed() {
				return
			}
			if msg != "" {
				rec.Failf("after %s header %d no longer round-trips: %s; history: %v", what, hi, msg, trace)
				return
			}
		}
	}
	rec.ClassIf(removeThenAdd, "remove_then_add")
	rec.ClassIf(mergeShared, "merge_with_shared_reference_name")
	rec.NTIf(removeThenAdd || mergeShared)
}

func TestProp(t *testing.T) {
	h.Main(t, "C07",
		h.Rapid("api_built_roundtrip", h.Opt{Quick: 30000, Thorough: 1000000}, drawA, runA),
		h.Rapid("edit_histories", h.Opt{Quick: 30000, Thorough: 1000000}, drawB, runB),
	)
}
