// C10: truncated or corrupted streams are never read as different valid data.
package c10

import (
	"bytes"
	"errors"
	"fmt"
	"io"
	"strings"
	"testing"
	"time"

	"github.com/biogo/hts/bam"
	"github.com/biogo/hts/bgzf"
	"github.com/biogo/hts/sam"
	"pgregory.net/rapid"

	"verif/internal/bz"
	"verif/internal/h"
	"verif/internal/sb"
)

// ---------------------------------------------------------------------------
// BGZF

type GCase struct {
	S      bz.Script // small closed stream
	RD     int
	SubVal byte // the drawn substitution value
	Full   bool // all 255 substitution values (thorough tier, small streams)
}

func drawG(t *rapid.T) GCase {
	s := bz.Script{Level: rapid.SampledFrom([]int{-1, 0, 1, 6, 9}).Draw(t, "level"), WC: 1}
	n := rapid.IntRange(2, 5).Draw(t, "members")
	if rapid.IntRange(0, 4).Draw(t, "fullFirst") == 0 {
		// a full block of zeros (a member of about a hundred bytes) followed by small
		// members: a BSIZE that spans two of them makes one block of more than 65280 bytes
		if s.Level == 0 {
			s.Level = 6
		}
		s.Ops = append(s.Ops, bz.WOp{K: "write", P: bz.Pay{Kind: 4, Len: bz.BlockSize}}, bz.WOp{K: "flush"})
		n = rapid.IntRange(1, 2).Draw(t, "after")
	}
	for i := 0; i < n; i++ {
		l := rapid.IntRange(1, 800).Draw(t, "len")
		if rapid.IntRange(0, 3).Draw(t, "tiny") == 0 {
			l = rapid.IntRange(1, 30).Draw(t, "tinylen")
		}
		s.Ops = append(s.Ops, bz.WOp{K: "write", P: bz.Pay{Kind: rapid.IntRange(0, 3).Draw(t, "kind"), Seed: uint64(rapid.IntRange(0, 1000).Draw(t, "seed")), Len: l}}, bz.WOp{K: "flush"})
	}
	return GCase{S: s, RD: rapid.SampledFrom([]int{1, 3}).Draw(t, "rd"), SubVal: rapid.Byte().Draw(t, "subval"), Full: h.Tier() == "thorough" && rapid.IntRange(0, 3).Draw(t, "full") == 0}
}

// readAll reads a (possibly damaged) stream; it returns the data obtained and the final error (nil = clean io.EOF).
func readAll(stream []byte, rd int) (data []byte, err error, panicked string) {
	defer func() {
		if e := recover(); e != nil {
			panicked = fmt.Sprint(e)
		}
	}()
	r, err := bgzf.NewReader(bytes.NewReader(stream), rd)
	if err != nil {
		return nil, err, ""
	}
	defer r.Close()
	var buf bytes.Buffer
	_, err = io.Copy(&buf, r)
	if err != nil {
		// the error ends the data: asking again must not produce more of it
		// (a caller that retries would otherwise get the stream with a hole)
		p := make([]byte, 4096)
		for k := 0; k < 3; k++ {
			n, e := r.Read(p)
			if n != 0 || e == nil {
				return buf.Bytes(), fmt.Errorf("%w [then Read #%d after the error returned %d bytes, err %v]", errResumed, k+1, n, e), ""
			}
		}
	}
	return buf.Bytes(), err, ""
}

var errResumed = errors.New("the reader went on after reporting an error")

func runG(c GCase, rec *h.Rec) {
	o := c.S.Run(10 * time.Second)
	if o.Hung != "" || len(o.Errs) > 0 || o.CloseErr != nil {
		rec.Skip("could not build the stream")
		return
	}
	stream, model := o.Out, o.Model
	ms, err := bz.Walk(stream)
	if err != nil {
		rec.Skip("stream does not parse (C08's business)")
		return
	}
	starts := map[int]int{} // member start offset -> payload bytes before it
	acc := 0
	for _, m := range ms {
		starts[m.Off] = acc
		acc += len(m.Data)
	}
	var evals, nt uint64
	defer func() { rec.AddEvals(evals, nt) }()
	run := func(b []byte) (data []byte, err error, ok bool) {
		var p string
		fin := h.Call(10*time.Second, func() { data, err, p = readAll(b, c.RD) })
		if !fin {
			rec.Failf("reading a damaged stream did not return within 10s")
			return nil, nil, false
		}
		if p != "" {
			rec.Failf("reading a damaged stream panicked: %s", p)
			return nil, nil, false
		}
		return data, err, true
	}
	// every proper prefix
	for cut := 0; cut < len(stream); cut++ {
		evals++
		data, err, ok := run(stream[:cut])
		if !ok {
			return
		}
		where := classify(ms, cut)
		if errors.Is(err, errResumed) {
			rec.Failf("prefix of %d/%d bytes (cut %s): %v", cut, len(stream), where, err)
			return
		}
		if !bytes.HasPrefix(model, data) {
			rec.Failf("prefix of %d/%d bytes (cut %s): the reader returned %d bytes that are not a prefix of the original data", cut, len(stream), where, len(data))
			return
		}
		before, atStart := starts[cut]
		if err == nil {
			if !atStart {
				rec.Failf("prefix of %d/%d bytes (cut %s, not at a block boundary) was read to a clean end of data after %d bytes", cut, len(stream), where, len(data))
				return
			}
			if len(data) != before {
				rec.Failf("prefix of %d bytes ends at a block boundary after %d bytes of data, the reader returned %d and a clean end", cut, before, len(data))
				return
			}
		}
		// HasEOF is false for every proper prefix, unless the prefix happens to
		// end with 28 bytes identical to the marker (an empty block written with
		// the default header)
		if atStart || cut < 64 || cut%7 == int(c.SubVal)%7 {
			has, _ := bgzf.HasEOF(bytes.NewReader(stream[:cut]))
			if has && (cut < 28 || !bytes.Equal(stream[cut-28:cut], bz.EOFMarker)) {
				rec.Failf("HasEOF reports true for a prefix of %d bytes that does not end with the marker", cut)
				return
			}
			if has {
				// the stream was written by bgzf.Writer, which puts the marker at the
				// end only (an empty block it writes elsewhere is spelled differently:
				// no prefix of its output ended like this in any run on the unchanged
				// tree), so a proper prefix that passes for a closed stream is a loss
				rec.Failf("the proper prefix of %d/%d bytes (cut %s) ends with a block identical to the EOF marker: HasEOF reports true and %d of %d bytes of data are missing", cut, len(stream), where, len(model)-len(data), len(model))
				return
			}
		}
		if !atStart {
			nt++
		}
	}
	// single byte substitutions
	damaged := make([]byte, len(stream))
	for pos := 0; pos < len(stream); pos++ {
		orig := stream[pos]
		vals := []byte{orig ^ 1, orig ^ 0x80, c.SubVal}
		if len(stream) <= 1200 || startsDeflate(ms, pos) {
			// every single-bit flip (short streams; the first bytes of each deflate stream, where the block header lives)
			for b := uint(1); b < 7; b++ {
				vals = append(vals, orig^(1<<b))
			}
		}
		if f, mi := fieldAt(ms, pos); f == "bsize" {
			// values that make the member look empty or one byte off
			vals = append(vals, 17, 18, orig+1, orig-1)
			// values that make the member end exactly where a later member ends
			// (the declared span then holds several whole members)
			cur := ms[mi].Size - 1
			span := ms[mi].Size
			for j := mi + 1; j < len(ms) && j <= mi+4; j++ {
				span += ms[j].Size
				t := span - 1
				if t > 0xffff {
					break
				}
				if t&0xff00 == cur&0xff00 && byte(cur) == orig {
					vals = append(vals, byte(t))
				}
				if t&0xff == cur&0xff && byte(cur>>8) == orig {
					vals = append(vals, byte(t>>8))
				}
			}
		}
		if c.Full && len(stream) <= 700 {
			vals = vals[:0]
			for v := 0; v < 256; v++ {
				vals = append(vals, byte(v))
			}
		}
		for _, v := range vals {
			if v == orig {
				continue
			}
			evals++
			copy(damaged, stream)
			damaged[pos] = v
			data, err, ok := run(damaged)
			if !ok {
				return
			}
			if errors.Is(err, errResumed) && !bytes.HasPrefix(model, data) {
				rec.Failf("byte %d changed from %#x to %#x: %v, and the data returned is not a prefix of the original", pos, orig, v, err)
				return
			}
			if errors.Is(err, errResumed) {
				f, _ := fieldAt(ms, pos)
				rec.Failf("byte %d (%s) changed from %#x to %#x: %v", pos, f, orig, v, err)
				return
			}
			if err == nil && !bytes.Equal(data, model) {
				f, _ := fieldAt(ms, pos)
				rec.Failf("byte %d (%s) changed from %#x to %#x: the stream is read without error but gives %d bytes instead of the original %d (first difference at %d)", pos, f, orig, v, len(data), len(model), firstDiff(data, model))
				return
			}
			if f, _ := fieldAt(ms, pos); f == "bsize" || f == "deflate" || f == "crc" || f == "isize" {
				nt++
			}
		}
	}
	rec.ClassIf(len(ms) > 0 && len(ms[0].Data) == bz.BlockSize, "first_member_is_a_full_block")
	rec.NTIf(len(ms) >= 3)
}

// classify names where a cut falls.
func classify(ms []bz.Member, cut int) string {
	f, i := fieldAt(ms, cut)
	if i < 0 {
		return "at the end"
	}
	if cut == ms[i].Off {
		return fmt.Sprintf("at the start of block %d", i)
	}
	return fmt.Sprintf("inside block %d (%s)", i, f)
}

// startsDeflate reports whether pos is one of the first four bytes of a member's deflate data.
func startsDeflate(ms []bz.Member, pos int) bool {
	if f, _ := fieldAt(ms, pos); f != "deflate" {
		return false
	}
	for d := 1; d <= 4; d++ {
		if f, _ := fieldAt(ms, pos-d); f != "deflate" {
			return true
		}
	}
	return false
}

// fieldAt names the field of the member holding stream offset pos.
func fieldAt(ms []bz.Member, pos int) (string, int) {
	for i, m := range ms {
		if pos < m.Off || pos >= m.Off+m.Size {
			continue
		}
		rel := pos - m.Off
		hdr := 12
		for _, s := range m.Subs {
			if s.ID == [2]byte{'B', 'C'} && rel >= hdr+4 && rel < hdr+6 {
				return "bsize", i
			}
			hdr += 4 + len(s.Data)
		}
		switch {
		case rel < hdr:
			return "header", i
		case rel >= m.Size-8 && rel < m.Size-4:
			return "crc", i
		case rel >= m.Size-4:
			return "isize", i
		}
		return "deflate", i
	}
	return "", -1
}

func firstDiff(a, b []byte) int {
	for i := range a {
		if i >= len(b) || a[i] != b[i] {
			return i
		}
	}
	return len(a)
}

// ---------------------------------------------------------------------------
// BAM

type BCase struct {
	Recs   []sb.ARec
	Cuts   []int // member boundaries inside the record stream (payload offset mod length)
	RD     int
	SubVal byte
	Omit   int // 0 none, 1 aux tags, 2 all variable length data: what the reader is told to leave out
	Big    int // >0: record Big%len gets a 4200-byte Z field followed by more aux fields (a record larger than the reader's inline buffer)
}

func drawB(t *rapid.T) BCase {
	opt := sb.RecOpt{NRefs: 2, Aux: sb.AuxOpt{NoH: true}, MaxAux: 2}
	c := BCase{
		Recs:   rapid.SliceOfN(sb.RecGen(opt), 1, 6).Draw(t, "recs"),
		Cuts:   rapid.SliceOfN(rapid.IntRange(0, 100000), 1, 3).Draw(t, "cuts"),
		RD:     rapid.SampledFrom([]int{1, 3}).Draw(t, "rd"),
		SubVal: rapid.Byte().Draw(t, "subval"),
	}
	if rapid.IntRange(0, 3).Draw(t, "big?") == 0 {
		c.Big = rapid.IntRange(1, 6).Draw(t, "big")
	}
	c.Omit = rapid.SampledFrom([]int{0, 0, 1, 2}).Draw(t, "omit")
	if c.Big > 0 {
		// the modes that skip data matter most where a record is read in several steps
		c.Omit = rapid.SampledFrom([]int{2, 2, 1, 0}).Draw(t, "omitBig")
	}
	return c
}

// fixedColumns keeps the nine mandatory columns before SEQ: what every Omit mode returns
func fixedColumns(lines []string) []string {
	out := make([]string, len(lines))
	for i, l := range lines {
		f := strings.SplitN(l, "\t", 10)
		if len(f) > 9 {
			f = f[:9]
		}
		out[i] = strings.Join(f, "\t")
	}
	return out
}

func readBAM(stream []byte, rd, omit int) (hdr string, lines []string, err error, panicked string) {
	defer func() {
		if e := recover(); e != nil {
			panicked = fmt.Sprint(e)
		}
	}()
	r, err := bam.NewReader(bytes.NewReader(stream), rd)
	if err != nil {
		return "", nil, err, ""
	}
	defer r.Close()
	switch omit {
	case 1:
		r.Omit(bam.AuxTags)
	case 2:
		r.Omit(bam.AllVariableLengthData)
	}
	t, _ := r.Header().MarshalText()
	hdr = string(t)
	for {
		rec, err := r.Read()
		if err == io.EOF {
			return hdr, lines, nil, ""
		}
		if err != nil {
			return hdr, lines, err, ""
		}
		b, err := rec.MarshalSAM(sam.FlagDecimal)
		if err != nil {
			return hdr, lines, err, ""
		}
		lines = append(lines, string(b))
		if len(lines) > 100 {
			return hdr, lines, fmt.Errorf("too many records"), ""
		}
	}
}

func runB(c BCase, rec *h.Rec) {
	specs := []sb.RefSpec{{Name: "chrA", Len: 1 << 29}, {Name: "chrB", Len: 1 << 29}}
	hd, err := sb.HSpec{Version: "1.6", Refs: specs}.Build()
	if err != nil {
		rec.Failf("header: %v", err)
		return
	}
	for i := range c.Recs {
		c.Recs[i].Name = fmt.Sprintf("r%d", i)
		if c.Recs[i].SeqLen > 300 {
			c.Recs[i].SeqLen = 300
		}
		c.Recs[i].NCigar = 0
	}
	if c.Big > 0 {
		a := &c.Recs[c.Big%len(c.Recs)]
		a.Aux = append(a.Aux, sb.AAux{Tag: "z0", Ty: 'Z', ZN: 4200}, sb.AAux{Tag: "z1", Ty: 'i', I: -70000},
			sb.AAux{Tag: "z2", Ty: 'Z', S: "tail"}, sb.AAux{Tag: "z3", Ty: 'B', Sub: 's', BI: []int64{-3, 4, 5}}, sb.AAux{Tag: "z4", Ty: 'C', I: 7})
	}
	text, _ := hd.MarshalText()
	payload := sb.SpecBAMHeader(text, specs)
	hdrLen := len(payload)
	recEnd := map[int]int{hdrLen: 0} // payload offset -> number of complete records before it
	var lines []string
	var anchors []int // payload offsets of record starts and of aux field boundaries
	var bigAnchors []int
	for i, a := range c.Recs {
		start := len(payload)
		anchors = append(anchors, start)
		for k := range a.Aux {
			part := a
			part.Aux = a.Aux[:k]
			anchors = append(anchors, start+len(sb.SpecBAMRecord(part)))
			if c.Big > 0 && i == c.Big%len(c.Recs) && k > 0 && a.Aux[k-1].ZN > 0 || len(bigAnchors) > 0 && i == c.Big%len(c.Recs) {
				bigAnchors = append(bigAnchors, anchors[len(anchors)-1])
			}
		}
		payload = append(payload, sb.SpecBAMRecord(a)...)
		recEnd[len(payload)] = i + 1
		lines = append(lines, sb.SpecSAMLine(a, specs, 0))
	}
	cutSet := map[int]bool{}
	for _, cu := range c.Cuts {
		p := hdrLen + cu%(len(payload)-hdrLen+1)
		if cu%2 == 1 {
			// a block boundary at, or within two bytes of, a record start or an aux field boundary
			k := cu / 2
			p = anchors[k%len(anchors)] + (k/len(anchors))%5 - 2
		}
		if p > 0 && p < len(payload) {
			cutSet[p] = true
		}
	}
	// the large record is always split behind its long field and at the field boundaries after it
	for k, a := range bigAnchors {
		cutSet[a+(c.Big+k)%3] = true
	}
	var pieces [][]byte
	prev := 0
	for p := 1; p <= len(payload); p++ {
		if cutSet[p] || p == len(payload) {
			pieces = append(pieces, payload[prev:p])
			prev = p
		}
	}
	f := bz.BuildFile(pieces, 6, true)
	stream := f.Bytes
	// sanity: the intact stream reads back as the original lines
	if c.Omit != 0 {
		lines = fixedColumns(lines)
	}
	_, got, err, p := readBAM(stream, c.RD, c.Omit)
	if c.Omit != 0 {
		got = fixedColumns(got)
	}
	if p != "" || err != nil || fmt.Sprint(got) != fmt.Sprint(lines) {
		rec.Skip(fmt.Sprintf("intact stream does not read back (C05's business): %v %s", err, p))
		return
	}
	boundary := map[int]int{} // stream offset of a member start -> payload bytes before it
	for _, m := range f.Members {
		boundary[int(m.Base)] = m.Start
	}
	var evals, nt uint64
	defer func() { rec.AddEvals(evals, nt) }()
	run := func(b []byte) (lines []string, err error, ok bool) {
		var p string
		fin := h.Call(10*time.Second, func() {
			_, lines, err, p = readBAM(b, c.RD, c.Omit)
			if c.Omit != 0 {
				lines = fixedColumns(lines)
			}
		})
		if !fin {
			rec.Failf("reading a damaged BAM did not return within 10s")
			return nil, nil, false
		}
		if p != "" {
			rec.Failf("reading a damaged BAM panicked: %s", p)
			return nil, nil, false
		}
		return lines, err, true
	}
	for cut := 0; cut < len(stream); cut++ {
		evals++
		got, err, ok := run(stream[:cut])
		if !ok {
			return
		}
		if len(got) > len(lines) || fmt.Sprint(got) != fmt.Sprint(lines[:len(got)]) {
			rec.Failf("BAM prefix of %d/%d bytes: the %d records returned are not a prefix of the original records", cut, len(stream), len(got))
			return
		}
		if err == nil {
			pay, atBlock := boundary[cut]
			nrec, atRecord := recEnd[pay]
			if !atBlock || !atRecord || nrec != len(got) {
				rec.Failf("BAM prefix of %d/%d bytes (block boundary: %v, record boundary: %v) was read to a clean end after %d of %d records", cut, len(stream), atBlock, atBlock && atRecord, len(got), len(lines))
				return
			}
			rec.Class("clean_end_at_block_and_record_boundary")
		}
		if _, atBlock := boundary[cut]; !atBlock {
			nt++
		}
	}
	damaged := make([]byte, len(stream))
	step := 1
	if len(stream) > 1500 {
		step = 5 // cost: long streams get every fifth position, the phase drawn with the case
	}
	for pos := int(c.SubVal) % step; pos < len(stream); pos += step {
		orig := stream[pos]
		for _, v := range []byte{orig ^ 1, orig ^ 0x80, c.SubVal} {
			if v == orig {
				continue
			}
			evals++
			copy(damaged, stream)
			damaged[pos] = v
			got, err, ok := run(damaged)
			if !ok {
				return
			}
			if err == nil && fmt.Sprint(got) != fmt.Sprint(lines) {
				rec.Failf("BAM byte %d changed from %#x to %#x: read without error but gives %d records %q instead of %q", pos, orig, v, len(got), got, lines)
				return
			}
			nt++
		}
	}
	rec.ClassIf(c.Big > 0, "record_larger_than_4096_bytes")
	rec.ClassIf(c.Omit == 1, "reader_omits_aux_tags")
	rec.ClassIf(c.Omit == 2, "reader_omits_all_variable_length_data")
	rec.NTIf(len(f.Members) >= 3)
}

func TestProp(t *testing.T) {
	h.Main(t, "C10",
		h.Rapid("bgzf_streams", h.Opt{Quick: 30, Thorough: 600}, drawG, runG),
		h.Rapid("bam_streams", h.Opt{Quick: 20, Thorough: 400}, drawB, runB),
	)
}
