#!/bin/bash
# usage: tools/seedround.sh <suffix> <ID>...   e.g. tools/seedround.sh "m13 m14" C02 C04
# Copies the deliveries of the seeding sub-agents (/tmp/wt/<ID>/_seeded/<mN>/) to
# /verif/seeded/<ID>-<mN>/ and confirms each with tools/seedcheck.sh (no check is
# run here; tools/seedmatrix.sh does that). Logs: /tmp/seedlogs/<name>.log
cd /verif; mkdir -p /tmp/seedlogs
sufs=$1; shift
names=()
for id in "$@"; do for m in $sufs; do
  src=/tmp/wt/$id/_seeded/$m
  [ -f $src/patch.diff ] && [ -f $src/demo_test.go ] && [ -f $src/meta.json ] || { echo "$id-$m: not delivered"; continue; }
  mkdir -p seeded/$id-$m && cp $src/patch.diff $src/demo_test.go $src/meta.json seeded/$id-$m/
  names+=("$id-$m")
done; done
printf '%s\n' "${names[@]}" | xargs -P 6 -I{} sh -c 'tools/seedcheck.sh seeded/{} > /tmp/seedlogs/{}.log 2>&1; echo "{}: $(grep "seed confirmed" /tmp/seedlogs/{}.log)"'
