#!/bin/bash
# usage: tools/seedmatrix.sh [-t tag] [seed-name ...]   (default: every directory under /verif/seeded)
# Applies each confirmed seeded change to a scratch worktree of /repo HEAD
# (outside /repo and /verif; removed at the end), runs the quick check of its
# property (plus any listed in its meta.json "also_run") against that worktree
# (VERIF_REPO, see cmd/verifctl) and records the exit codes in
# seeded/<name>/result.json. /repo itself and evidence/ are not touched.
set -u
cd /verif
tag=sm$$
if [ "${1:-}" = "-t" ]; then tag=$2; shift 2; fi
wt=/tmp/seedrepo.$tag
git -C /repo worktree add -q --detach "$wt" HEAD || exit 2
trap 'git -C /repo worktree remove --force "$wt" >/dev/null 2>&1; rm -rf /verif/replays/new-'$tag' /verif/.alt/'$tag' /verif/.out/*-'$tag' /verif/.bin/*-'$tag'.test' EXIT
names=("$@"); [ ${#names[@]} -gt 0 ] || names=($(ls seeded | grep -E '^C[0-9]+-'))
for n in "${names[@]}"; do
  d=seeded/$n
  id=${n%%-*}
  also=$(python3 -c "import json;print(' '.join(json.load(open('$d/meta.json')).get('also_run',[])))")
  git -C "$wt" apply "/verif/$d/patch.diff" || { echo "$n: patch does not apply"; continue; }
  res="{"
  for c in $id $also; do
    out=$(VERIF_REPO="$wt" VERIF_TAG="$tag" ./check "$c" quick 2>&1); rc=$?
    first=$(echo "$out" | grep -E "^  [a-zA-Z]" | head -1 | cut -c3-240 | python3 -c "import json,sys;print(json.dumps(sys.stdin.read().strip()))")
    res="$res\"$c\": {\"exit\": $rc, \"first_message\": $first},"
    echo "$n: ./check $c quick -> exit $rc"
  done
  echo "${res%,}}" > "$d/result.json"
  git -C "$wt" checkout -q -- . ; git -C "$wt" clean -fdq
  rm -rf "replays/new-$tag"
done
