#!/bin/bash
# usage: tools/seedmatrix.sh [seed-name ...]   (default: every directory under /verif/seeded)
# Applies each confirmed seeded change to /repo, runs the quick check of its
# property (plus any listed in its meta.json "also_run"), reverts /repo, and
# records the exit codes in seeded/<name>/result.json. /repo must be clean.
set -u
cd /verif
[ -z "$(git -C /repo status --porcelain)" ] || { echo "/repo not clean"; exit 2; }
trap 'git -C /repo checkout -q -- . ; git -C /repo clean -fdq' EXIT
names=("$@"); [ ${#names[@]} -gt 0 ] || names=($(ls seeded | grep -E '^C[0-9]+-'))
for n in "${names[@]}"; do
  d=seeded/$n
  id=${n%%-*}
  also=$(python3 -c "import json;print(' '.join(json.load(open('$d/meta.json')).get('also_run',[])))")
  git -C /repo apply "/verif/$d/patch.diff" || { echo "$n: patch does not apply"; continue; }
  res="{"
  for c in $id $also; do
    out=$(./check "$c" quick 2>&1); rc=$?
    first=$(echo "$out" | grep -E "^  [a-zA-Z]" | head -1 | cut -c3-240 | python3 -c "import json,sys;print(json.dumps(sys.stdin.read().strip()))")
    res="$res\"$c\": {\"exit\": $rc, \"first_message\": $first},"
    echo "$n: ./check $c quick -> exit $rc"
  done
  echo "${res%,}}" > "$d/result.json"
  git -C /repo checkout -q -- . ; git -C /repo clean -fdq
  rm -rf replays/new
done
