#!/bin/bash
# usage: tools/silence.sh <tier> <seed>...   runs every check of MANIFEST.json on the current tree and lists non-zero exits
cd "$(dirname "$0")/.." || exit 2
tier=$1; shift
for seed in "$@"; do
  for id in ${IDS:-C01 C02 C03 C04 C05 C06 C07 C08 C09 C10 C11 C12 C13 C14 C15 C16 C17 C18 C19 C20}; do
    s=$(date +%s)
    out=$(VERIF_SEED=$seed ./check $id $tier 2>&1); rc=$?
    e=$(( $(date +%s) - s ))
    echo "seed=$seed $id $tier exit=$rc ${e}s $(echo "$out" | grep -E 'evaluations' | tail -1)"
    if [ $rc != 0 ]; then echo "$out" | tail -30 | sed 's/^/    /'; mkdir -p silence_fail; cp -r replays/new silence_fail/$id-$tier-$seed 2>/dev/null; fi
  done
done
