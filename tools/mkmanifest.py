#!/usr/bin/env python3
"""Regenerates MANIFEST.json from the table below and validates it (and any
evidence files present) against the schemas in /root/.vp when they exist."""
import json, os, sys, subprocess

ROOT = os.path.dirname(os.path.dirname(os.path.abspath(__file__)))

# id -> (category, text, note, technique, design_ref)
CHECKS = {
 "C20": ("exploration",
   "Generated-input search: every int32 (thorough, exhaustive 2^32; quick: all length-class bounds +-64 and 2^24 distinct interior-bit values) and length-stratified int64 values are encoded and compared byte for byte with an encoder written from CRAM 2.3, Len/Decode agreement and round trip are checked, and arbitrary byte strings are decoded against the spec decoder incl. never reading past the announced length; valid CRAM container/block headers are read through cram.NewReader from fragmenting readers, concurrently, and cut inside multi-byte values (decoded fields equal the written ones; a cut is an error, not a clean end). Exhaustive for ITF-8 in the thorough tier, sampled for LTF-8 (2^64 cannot be enumerated).",
   "Trusted: the harness' transcription of CRAM section 2.3; LTF-8 coverage is stratified sampling, not enumeration.",
   "property-based testing: exhaustive/stratified enumeration + rapid, oracle = independent spec encoder/decoder and round trip",
   "DESIGN.md 3/C20"),
 "C17": ("exploration",
   "Generated-input search: every begin-sorted chunk list up to length 4 (thorough 5) over a small virtual-offset alphabet is enumerated exhaustively for all strategies and thresholds, plus rapid lists of up to 30 chunks; oracle = interval-union coverage (superset; equality for Adjacent), separation/threshold predicates, Squash's enclosing chunk, sortedness and idempotence.",
   "Inputs obey the documented precondition (sorted by Begin, Begin<=End). Exhaustive only inside the small alphabet; beyond it sampled.",
   "property-based testing: bounded exhaustive enumeration + rapid, oracle = coverage/validity predicates and idempotence",
   "DESIGN.md 3/C17"),
 "C16": ("exploration",
   "Generated-input search against transliterations of the SAM 5.3 and CSI reference C code: rapid records (positions on tile/bin edges, CIGARs over all ten ops up to 2^28-1) for End/Len/Lengths/IsValid/Bin; BinFor on the 16 KiB tile grid (thorough: all 2^15x2^15/2 tile pairs, exhaustive at tile granularity; quick: near pairs, power-of-two edges, sampled far pairs); OverlappingBinsFor as sets on narrow, edge and wide intervals (an earlier list must not change when a later one is enumerated); pairwise overlap => bin membership; CSI reg2bin/reg2bins exhaustively over all intervals and overlapping pairs of every geometry with range <=64 (thorough 128) and sampled for every geometry the index reader accepts (depth <= 10, range up to 2^62).",
   "Trusted: the harness' transliterations of the specification code. Bin is not judged where the specification is silent (see evidence assumptions). Large CSI geometries and wide BAI bin lists are sampled.",
   "property-based testing: exhaustive grid enumeration + rapid, oracle = independent spec transliteration and overlap=>membership relation",
   "DESIGN.md 3/C16"),
 "C19": ("exploration",
   "Generated-input search: rapid FASTA files (records, widths, LF/CRLF, final newline, blank lines, descriptions) whose true layout is known to the generator; oracle = generator ground truth for Length/Start/line layout, WriteTo/ReadFrom round trip, and exact sub-sequence equality for boundary-biased (start,end) ranges read through File (two live handles, chunked and eager-EOF sources) with several buffer sizes, then io.EOF.",
   "Ground truth is the generator's own bookkeeping; empty sequences and names with a double quote are outside the domain.",
   "property-based testing (rapid), oracle = generator ground truth + round trip",
   "DESIGN.md 3/C19"),
 "C14": ("exploration",
   "Model-based (stateful) property testing of LRU, FIFO, Random (plain and StatsRecorder-wrapped): every history up to length 4 (thorough 5) over a 22-operation alphabet is enumerated exhaustively, plus rapid histories of up to 40 operations; after every operation Len/Cap/Peek of all bases, the block identity returned by Get, the eviction choice (unused first, then oldest for LRU/FIFO) and the effect and termination of Resize/Drop/Free are compared with a reference model that follows the reader's ownership rule (only blocks handed back by Put may be overwritten). Concurrent histories of 2-4 goroutines are checked for linearizability with porcupine against the same contract; concurrent StatsRecorder counters are compared with call totals; a stress sub-check runs thousands of generated operations from 2-6 goroutines and asserts what holds in every linearization (termination, Len <= largest capacity, answers only for the base asked).",
   "Goroutine schedules of the concurrent part are sampled by real parallel execution, not enumerated; a hang is a 5 s watchdog plus a two-snapshot deadlock signature. Needs the verif-tagged Block factory hook in package bgzf.",
   "stateful model-based property testing (exhaustive short histories + rapid) with a reference model; porcupine linearizability check of generated concurrent histories",
   "DESIGN.md 3/C14"),
 "C01": ("exploration",
   "Generated-input search: rapid write scripts (Write/WriteToFill/Flush/Wait, payload lengths on every block-size edge up to 3 blocks, compressible and incompressible content, level -1..9, wc 0..17, delayed sink) are written, closed and read back at rd 0..8 with generated Read(n)/ReadByte mixes; oracle = the concatenated payloads (byte-exact, short read only at the end with io.EOF, (0,io.EOF) afterwards) plus compress/gzip as a second decoder.",
   "Goroutine schedules are sampled (real parallel execution, delays), not enumerated; every call runs under a watchdog.",
   "property-based testing (rapid): round trip against a reference model, differential against compress/gzip",
   "DESIGN.md 3/C01"),
 "C08": ("exploration",
   "Generated-input search: the same script family with generated gzip header settings (Latin-1 Name/Comment, Extra sub-fields, OS, ModTime incl. values that place BC\\x02\\x00 inside the fixed header) closed or not closed, plus members sized to 65533..65540 bytes by header padding (legal ones must be written and read back, larger ones refused with ErrBlockOverflow); oracle = an independent RFC 1952/BGZF member walker (sub-field framing, one BC of length 2, true member end via compress/flate, CRC32, ISIZE, BSIZE+1 == length <= 64 KiB, payload <= 65280), header fields equal the configured ones, compress/gzip multistream expansion equals the data, marker <=> closed without error, HasEOF agrees, identical bytes at wc=1.",
   "Trusted: the harness' member walker and compress/gzip. Scripts refused with ErrBlockOverflow are out of domain (counted).",
   "property-based testing (rapid): independent format parser + differential (compress/gzip) + metamorphic (wc=1 vs wc=k)",
   "DESIGN.md 3/C08"),
 "C12": ("exploration",
   "Generated-input search over write scripts and completion orders (heavy incompressible block followed by tiny flushed blocks, wc 1..8, delayed sink): after every underlying Write returns and after every API call the delivered bytes must end on a member boundary and decode to a prefix of the data issued so far; after Flush then Wait returned nil the prefix contains everything written before the Flush; after Close everything. With one failing sink write nothing may be delivered after the failed block and a nil from Wait/Close is still a durability claim. BAM workload: when bam.NewWriter returns, the sink decodes to exactly the binary header; after Close the sink holds every record and the marker, also when the destination is a caller's *bgzf.Writer.",
   "Crash points are the moments the sink can observe (returns of its own Write and of API calls); schedules are sampled.",
   "property-based testing (rapid) with an observing sink: invariant over the history of underlying writes, independent member walker as oracle",
   "DESIGN.md 3/C12"),
 "C02": ("exploration",
   "Model-based property testing: rapid BGZF files (1..8 blocks incl. empty ones, with/without marker, from the harness' own encoder or the library writer) and histories of up to 40 Seek/Read/ReadByte/Blocked/replay operations at rd 0..8 are run against a reference model (position = (block, offset), sticky end flag); every returned byte, error class, LastChunk (after translation to logical positions), BlockLen and 'seek to the reported Begin replays the same bytes' is compared; the history runs under a watchdog with a deadlock signature.",
   "Read-ahead schedules are sampled; Seek targets outside 'block start + offset <= block length' are out of domain.",
   "stateful model-based property testing (rapid) against a reference model",
   "DESIGN.md 3/C02"),
 "C03": ("exploration",
   "Model-based + differential property testing: C02 histories with SetCache(LRU/FIFO/Random, capacity 1..16, plain or StatsRecorder-wrapped) at the start and at arbitrary points, revisit-heavy seeks, pauses that let read-ahead workers settle, seeks to the end of the file, rd 0..8; oracle = the C02 reference model for every op plus an uncached reader running the same history (identical LastChunk/BlockLen trace); watchdog + deadlock signature for 'no call blocks forever', recover for panics.",
   "As C02; a neutral pass-through around three quarters of the caches measures hits/evictions for the non-triviality rule.",
   "stateful model-based property testing (rapid): reference model + differential against the uncached reader",
   "DESIGN.md 3/C03"),
 "C09": ("fault_enumeration",
   "Fault enumeration over generated workloads: a fault-free run counts the underlying Write (writer) or Read/Seek (reader) calls; then every call index is failed in 4 shapes {error, error after partial data} x {once, sticky}. Writer oracle: every API call returns (4 s watchdog + deadlock signature), Close reports an error whenever the sink failed, errors are monotone (no nil after a reported failure), no EOF marker after a failed Close, no bgzf goroutine remains (a time budget alone never decides: deadlock signature from two goroutine dumps, or ten times the budget). Reader oracle: every call returns, every byte returned is the right byte for its position (also after a failed and retried Seek), io.EOF only at the true end, no goroutine remains; rd 1..4, with and without caches, on sources that can and cannot seek.",
   "Fault positions are enumerated exhaustively per workload; the workloads and the goroutine schedules (sink delays, rd) are sampled. Faults are honest errors, not silent short writes.",
   "fault injection through harness-owned io.Writer/io.ReadSeeker shims, exhaustive over call indices of rapid-generated workloads; oracle = return/leak watchdog + reference data",
   "DESIGN.md 3/C09"),
 "C05": ("exploration",
   "Generated-input search: API-built headers and records covering every field class (names 1..254, any reference/mate, position edges, 0..65535 CIGAR ops of all types, odd/even/zero sequences sized around the 4 KiB reader buffer and above a BGZF block, qualities absent/present, every aux type and B sub-type incl. empty) are written with bam.Writer and (1) the bytes under the BGZF layer are compared with an independent SAM 4.2 encoder (bin masked), (2) read back at rd 1..4 and compared field by field after all records were read (reference identity in the reader's header), then io.EOF, (3) re-read with Omit(AuxTags) and Omit(AllVariableLengthData).",
   "Trusted: the harness' BAM encoder. Aux type H is a recorded known finding (region excluded and counted, pinned replay reported).",
   "property-based testing (rapid): round trip + differential against an independent specification encoder",
   "DESIGN.md 3/C05"),
 "C06": ("exploration",
   "Generated-input search: rapid valid records (all aux types incl. boundary integers, +-Inf, empty and non-empty Z/H/B; '*' and '=' fields; clips and gaps in the CIGAR) are formatted with MarshalSAM (decimal and hexadecimal flags), compared with an independent SAM formatter (float tokens by value), parsed back with UnmarshalSAM against the same header (identical line, equal field values), written to BAM and read back (same line), and fed to sam.Reader as LF/CRLF text with or without final newline and header lines (one record per line).",
   "Trusted: the harness' SAM formatter. NaN and the one-base-quality-9 spelling ambiguity of SAM are outside the domain.",
   "property-based testing (rapid): round trip + differential against an independent formatter + SAM/BAM metamorphic agreement",
   "DESIGN.md 3/C06"),
 "C07": ("exploration",
   "Generated-input search: (a) rapid API-built headers are serialised to text and binary, parsed back and re-serialised (identical bytes, equal getter values, binary layout equal to an independent SAM 4.2 encoder); (b) stateful histories of up to 25 add/remove/rename/clone/merge/UnmarshalText/re-parse operations (restated @SQ lines, verbatim extra tags, removal of foreign items included) over up to 4 live headers with colliding names; after every step every live header must have ids equal to indices, unique names, still round-trip, and merge links must point at references the merged header owns with the same name and length; panics in documented calls are violations.",
   "Success or failure of an individual edit is not judged, only the reachable state. URIs are limited to the schemes the parser preserves.",
   "property-based testing (rapid): round trip + stateful histories with an invariant checked after every step",
   "DESIGN.md 3/C07"),
 "C04": ("exploration",
   "Generated-input search: rapid coordinate-sorted record sets (positions and lengths on tile and bin-level edges up to the scheme limit, several references, placed-unmapped and unplaced records) are added to BAI, CSI (minShift 4..24, depth 1..6, ranges up to 2^40) and tabix indexes with synthetic monotone chunk layouts (also starting at virtual offset zero; one index in three is queried and written while half built; bins with more than 512 chunks), and up to 48 boundary-biased queries per case are compared with a brute-force overlap filter (every overlapping record lies inside a returned chunk; error or empty answer implies no overlap; Add never fails or panics) as built, after write/read and after MergeChunks, kept answers compared again after later queries; a second sub-check writes a real BAM, indexes it with the reader's LastChunk values and iterates the returned chunks with bam.Iterator.",
   "Completeness only (no minimality). Record sets and queries are sampled, biased to the boundaries the bin/tile arithmetic depends on.",
   "property-based testing (rapid): brute-force reference oracle over generated record sets and queries",
   "DESIGN.md 3/C04"),
 "C15": ("exploration",
   "Generated-input search: indexes built by Add from generated record sets (BAI, CSI v1/v2 with aux bytes, tabix with generated header fields) are written, parsed by an independent BAI/TBI/CSI structure parser (bins = specification reg2bin of the records, each record inside a chunk of its bin, linear index conservative for every overlapped tile, pseudo-bin layout and values, trailing unplaced count, header fields at their specified positions), read back, re-written (identical bytes), queried (identical answers) and their NumRefs/ReferenceStats/Unmapped compared with the generator's ground truth; a second sub-check feeds indexes encoded by the harness itself in shapes Add cannot make (no pseudo-bin, no trailer, reversed bins/chunks) and checks acceptance, completeness, stable re-serialisation and statistics validity flags.",
   "Trusted: the harness' structure parser/encoder for the three formats and the generator's bookkeeping.",
   "property-based testing (rapid): round trip + independent format parser/encoder + ground-truth oracle",
   "DESIGN.md 3/C15"),
 "C13": ("exploration",
   "Generated-input search: BAM payloads from the harness' encoder are cut into BGZF blocks at record ends -1/0/+1 and mid-record (or written by bam.Writer), read sequentially noting LastChunk per record, and generated lists of chunks {Begin_i,End_j} (any order, repeated, overlapping) are replayed through SetChunk+Read and bam.Iterator at rd 1..4: exactly records i..j per chunk, in list order. ChunkReader: ordered non-overlapping chunk lists between arbitrary logical positions of C02 files, with every block-boundary position in each of its virtual-offset spellings, zero-length chunks and several buffer sizes: exactly the flat bytes, then io.EOF.",
   "Chunk lists for ChunkReader are ordered and non-overlapping; read-ahead schedules are sampled; every replay runs under a watchdog.",
   "property-based testing (rapid): reference model (record list / flat byte array) over generated files and chunk lists",
   "DESIGN.md 3/C13"),
 "C10": ("fault_enumeration",
   "Crash-point and corruption enumeration over generated streams: for every generated closed BGZF stream (2..5 blocks) and BAM stream (records spanning blocks) EVERY truncation length and, at EVERY byte position, several substituted values (all 255 for a share of small streams in the thorough tier; structure-aware extra values for BSIZE) are read back at rd 1 and 3; oracle = data/records returned are a prefix of the original, a clean end only at a block (and record) boundary, HasEOF false for every proper prefix, no data and no nil error from reads after the first error, and a substituted stream either fails or yields exactly the original.",
   "Exhaustive per stream for truncations; substitution values are sampled except where noted; the streams themselves are sampled.",
   "fault enumeration (all cut points, all positions x several values) over rapid-generated streams; oracle = original data/records",
   "DESIGN.md 3/C10"),
 "C18": ("exploration",
   "Generated-input search: 1..4 generated BAM inputs (some empty) with equal, disjoint and overlapping reference lists whose header order differs from name order, in each declared order (unknown with nil or custom less, unsorted, queryname, coordinate), each input sorted in that order, records tagged with (input, ordinal) and mates on other references, optionally one input cut inside the BGZF member of record n or ended 1..37 bytes into record n of a whole container; oracle = multiset equality with the inputs, sortedness under the declared order (coordinate = merged header order, unplaced last), per-input order preserved, concatenation for unsorted, every Ref/MateRef pointer-identical to a reference of Merger.Header() with the source name, io.EOF only after clean ends and an error reported for the damaged input; watchdog and a 64 MiB stack limit turn hangs and unbounded recursion into attributable failures.",
   "The merged header's reference order is modelled from MergeHeaders' documented behaviour.",
   "property-based testing (rapid): reference model (multiset + order predicates) over generated inputs with fault injection by truncation",
   "DESIGN.md 3/C18"),
 "C11": ("exploration",
   "Generated-input search: rapid structure-aware mutations (flips, grammar-character sets, insert/delete/duplicate/splice, truncation, 16/32-bit length-field overwrites with hostile values) of valid encodings for 17 decoder entry points (BGZF rd 1/2, BAM via re-wrapped inflated payload and raw stream with all Omit modes, SAM reader, UnmarshalSAM, ParseAux, ParseCigar, header text/binary, BAI/CSI/tabix, FAI text and FASTA, CRAM built from a generated container/block description with correct CRCs, ITF-8/LTF-8); every call runs in an isolated worker process (4 GiB address space, 64 MiB stack; a hang is 60 s of processor time without memory growth, 20 s without any progress, or 15 min) and every value returned without error (for BAM streams: again after the whole stream has been read) is fed to the library's accessors, formatters, bam.Writer and bam.Index. Thorough tier adds native coverage-guided go fuzzing of the same targets.",
   "A worker that dies because one make() sized by a length field exceeds the limit is counted as oversize_not_judged; heap growth to the limit, stack overflow, panics and calls that do not return are violations.",
   "property-based fuzzing: rapid structure-aware mutation in the quick tier, native go test -fuzz in the thorough tier; oracle = totality (returns, no panic, bounded time) in an isolated process",
   "DESIGN.md 3/C11"),
}

NOT_YET = {}

def main():
    props = [json.loads(l) for l in open(os.path.join(ROOT, "properties.jsonl"))]
    checks, na = [], []
    for p in props:
        i = p["id"]
        if i in CHECKS:
            cat, text, note, tech, ref = CHECKS[i]
            checks.append({
                "property_id": i,
                "quick_cmd": "./check %s quick" % i,
                "thorough_cmd": "./check %s thorough" % i,
                "evidence_file": "/verif/evidence/%s.json" % i,
                "replay_cmd_template": "./check %s --replay {path}" % i,
                "engine": "verifctl",
                "level_claimed": {"category": cat, "text": text, "design_ref": ref},
                "level_note": note,
                "technique": tech,
            })
        else:
            na.append({"property_id": i, "reason": NOT_YET.get(i, "check not built yet in this round; the design (DESIGN.md section 3) decides it by property-based testing and it will be claimed once the check exists and is silent on the unchanged tree")})
    hooks_commits = []
    hp = os.path.join(ROOT, "MANIFEST.hooks")
    if os.path.exists(hp):
        hooks_commits = [l.split()[0] for l in open(hp) if l.strip() and not l.startswith("#")]
    m = {
        "version": 1,
        "setup_cmd": "cd /verif && export GOFLAGS=-mod=mod GOPROXY=off GOSUMDB=off GOTOOLCHAIN=local && mkdir -p .bin && go build -o .bin/verifctl ./cmd/verifctl && go vet ./internal/... ./cmd/... && go test -count=1 -tags verif -run '^$' ./props/...",
        "hooks": {
            "guard": "verif",
            "enable": "go build tag: every check builds its test binary with `go test -c -tags verif` against /repo through the replace directive in /verif/go.mod",
            "baseline_off_cmd": "cd /repo && go build ./... && go test -vet=off -count=1 -timeout 25m ./...",
            "source_commits": hooks_commits,
            "add_only": True,
        },
        "engines": [{"name": "verifctl", "path": "/verif/cmd/verifctl", "serves_properties": [c["property_id"] for c in checks],
                     "kind_free_text": "Go driver: builds props/<id> as a test binary (rapid v1.3.0 properties, enumerators, native fuzz targets), runs 16 shard processes, replays pinned findings, aggregates evidence"}],
        "checks": checks,
        "not_applicable": na,
        "notes": "All checks: ./check <ID> quick|thorough; replay: ./check <ID> --replay <file>. VERIF_SEED selects the PRNG stream (0 is remapped). Exit 0 held / 1 VIOLATION / 2 inconclusive (infrastructure or time budget). Findings protocol: known_findings.json.",
    }
    json.dump(m, open(os.path.join(ROOT, "MANIFEST.json"), "w"), indent=1)
    open(os.path.join(ROOT, "MANIFEST.json"), "a").write("\n")
    validate()

def validate():
    try:
        import jsonschema
    except ImportError:
        print("jsonschema not importable; skipped validation"); return
    ms = "/root/.vp/MANIFEST.schema.json"
    if os.path.exists(ms):
        jsonschema.validate(json.load(open(os.path.join(ROOT, "MANIFEST.json"))), json.load(open(ms)))
        print("MANIFEST.json valid")
    es = "/root/.vp/EVIDENCE.schema.json"
    if os.path.exists(es):
        sch = json.load(open(es))
        d = os.path.join(ROOT, "evidence")
        for f in sorted(os.listdir(d)) if os.path.isdir(d) else []:
            if f.endswith(".json"):
                jsonschema.validate(json.load(open(os.path.join(d, f))), sch)
                print("evidence/%s valid" % f)

if __name__ == "__main__":
    if len(sys.argv) > 1 and sys.argv[1] == "validate":
        validate()
    else:
        main()
