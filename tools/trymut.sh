#!/bin/bash
# usage: tools/trymut.sh <ID> <patch-file | -e 'sed-expr' file> : apply a change to /repo, run the quick check, revert.
id=$1; shift
cd /repo || exit 2
if [ -n "$(git status --porcelain)" ]; then echo "/repo not clean"; exit 2; fi
if [ "$1" = "-e" ]; then sed -i "$2" "$3" || exit 2; else git apply "$1" || exit 2; fi
git diff --stat | tail -1
(cd /repo && go build ./... ) || { git checkout -- .; echo "MUTANT DOES NOT BUILD"; exit 2; }
cd /verif && ./check "$id" ${TIER:-quick} | tail -${LINES_OUT:-6}; rc=${PIPESTATUS[0]}
git -C /repo checkout -- . ; git -C /repo clean -fdq
echo "check exit=$rc"
