#!/usr/bin/env python3
"""Print the DESIGN.md table of seeded changes from seeded/*/meta.json and result.json."""
import json, os, glob
rows = []
for d in sorted(glob.glob('/verif/seeded/C*-m*')):
    n = os.path.basename(d)
    m = json.load(open(d + '/meta.json'))
    try:
        r = json.load(open(d + '/result.json'))
    except Exception:
        r = {}
    caught = [k for k, v in r.items() if v['exit'] == 1]
    missed = [k for k, v in r.items() if v['exit'] == 0]
    other = [k + ':exit%d' % v['exit'] for k, v in r.items() if v['exit'] not in (0, 1)]
    msg = ''
    for k in caught:
        msg = r[k]['first_message'][:110]
        break
    summ = m['summary'].replace('|', '/').replace('\n', ' ')
    if len(summ) > 170:
        summ = summ[:167] + '...'
    rows.append('| %s | %s | %s | %s |' % (n, summ, ', '.join(caught) or ('MISSED by ' + ', '.join(missed)) + ' '.join(other), msg.replace('|', '/')))
print('| seed | change | caught by (quick tier) | first message |')
print('|---|---|---|---|')
print('\n'.join(rows))
