#!/bin/bash
# usage: tools/seedcheck.sh <seed-dir> <PROP-ID> [more PROP-IDs]
# Confirms a seeded change independently (scratch worktree outside /repo and /verif):
#   builds, keeps the pinned suite's result unchanged, its demonstration fails with and passes without the change;
# then runs the quick check(s) against that worktree (VERIF_REPO); /repo is not touched.
set -u
seed=$(realpath "$1"); shift
export GOFLAGS=-mod=mod GOPROXY=off GOSUMDB=off GOTOOLCHAIN=local
wt=/tmp/seedcheck.$$
git -C /repo worktree add -q --detach "$wt" HEAD || exit 2
trap 'git -C /repo worktree remove --force "$wt" >/dev/null 2>&1' EXIT
pkg=$(python3 -c "import json;print(json.load(open('$seed/meta.json'))['demo_package'])")
tst=$(python3 -c "import json;print(json.load(open('$seed/meta.json'))['demo_test'])")
cp "$seed/demo_test.go" "$wt/$pkg/zz_seeded_demo_test.go"
echo "== demo without the change"
(cd "$wt" && go test -count=1 -run "^${tst}\$" "./$pkg/" 2>&1 | tail -3); base=$?
(cd "$wt" && go test -count=1 -run "^${tst}\$" "./$pkg/" >/dev/null 2>&1); base=$?
echo "== apply"
git -C "$wt" apply "$seed/patch.diff" || { echo "PATCH DOES NOT APPLY"; exit 3; }
(cd "$wt" && go build ./... ) || { echo "DOES NOT BUILD"; exit 3; }
echo "== demo with the change"
(cd "$wt" && go test -count=1 -run "^${tst}\$" "./$pkg/" 2>&1 | tail -5)
(cd "$wt" && go test -count=1 -run "^${tst}\$" "./$pkg/" >/dev/null 2>&1); mut=$?
rm -f "$wt/$pkg/zz_seeded_demo_test.go"
echo "== pinned suite with the change (expected failures: bgzf TestEOF, cram TestHasEOF, cram TestRead)"
fails=$(cd "$wt" && go test -count=1 ./... 2>&1 | grep -E '^--- FAIL' | sort | tr '\n' ' ')
echo "failing: $fails"
ok=1
[ "$base" = 0 ] || { echo "DEMO FAILS WITHOUT THE CHANGE"; ok=0; }
[ "$mut" != 0 ] || { echo "DEMO PASSES WITH THE CHANGE"; ok=0; }
exp=$(printf '%s\n' "--- FAIL: TestEOF" "--- FAIL: TestHasEOF" "--- FAIL: TestRead" | sort | tr '\n' ' ')
got=$(echo "$fails" | tr ' ' '\n' | grep -oE 'Test[A-Za-z0-9_]+' | sort | sed 's/^/--- FAIL: /' | tr '\n' ' ')
[ "$got" = "$exp" ] || { echo "SUITE RESULT CHANGED: $got"; ok=0; }
echo "seed confirmed: $ok"
[ "$ok" = 1 ] || exit 4
# the checks run against the scratch worktree (VERIF_REPO), /repo is not touched
cd /verif
tag=sc$$
for id in "$@"; do
  out=$(VERIF_REPO="$wt" VERIF_TAG="$tag" ./check "$id" quick 2>&1); rc=$?
  echo "== ./check $id quick -> exit $rc"
  echo "$out" | grep -E "VIOLATION|^  [a-zA-Z]" | head -4 | cut -c1-300
done
rm -rf "/verif/replays/new-$tag" "/verif/.alt/$tag" /verif/.out/*-"$tag" /verif/.bin/*-"$tag".test
