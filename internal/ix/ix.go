// Package ix holds what the index properties (C04, C15) share: generated
// sorted record sets with chunk layouts, construction of BAI/CSI/tabix
// indexes from them, boundary-biased queries and the brute-force oracle.
package ix

import (
	"bytes"
	"fmt"
	"io"
	"sort"

	"github.com/biogo/hts/bam"
	"github.com/biogo/hts/bgzf"
	"github.com/biogo/hts/bgzf/index"
	"github.com/biogo/hts/csi"
	"github.com/biogo/hts/sam"
	"github.com/biogo/hts/tabix"
	"pgregory.net/rapid"
)

// IRec is one indexed record.
type IRec struct {
	Ref        int // -1 for unplaced
	Start, End int // half open; End == Start+1 for placed unmapped
	Mapped     bool
	Step       int // size of the record's chunk: >0 advances Block by Step, <0 starts a new BGZF block -Step bytes further
}

// Spec is a generated indexing workload.
type Spec struct {
	NRefs    int
	Recs     []IRec
	MinShift int // CSI
	Depth    int // CSI
	Mid      int // >0: after Mid%len(Recs)+1 records the half-built index is queried and written once, then building goes on
	Origin   int // where the first chunk begins: 0 {101,7} (after a header), 1 {0,0} (a file without header), 2 {0,5}
}

const MaxPos = 1<<29 - 2 // largest End the BAI scheme accepts

// Limit returns the largest End for the CSI geometry (or BAI when depth==0).
func (s Spec) Limit() int {
	if s.Depth == 0 {
		return MaxPos
	}
	return 1<<uint(s.MinShift+3*s.Depth) - 2
}

// Layout assigns monotone chunks (Begin_i = End_{i-1}).
func (s Spec) Layout() []bgzf.Chunk {
	cur := bgzf.Offset{File: 101, Block: 7}
	switch s.Origin {
	case 1:
		cur = bgzf.Offset{}
	case 2:
		cur = bgzf.Offset{Block: 5}
	}
	out := make([]bgzf.Chunk, len(s.Recs))
	for i, r := range s.Recs {
		next := cur
		if r.Step > 0 && int(cur.Block)+r.Step <= 0xffff {
			next.Block += uint16(r.Step)
		} else {
			st := r.Step
			if st < 0 {
				st = -st
			}
			next.File += int64(st) + 30
			next.Block = uint16(st % 9)
		}
		out[i] = bgzf.Chunk{Begin: cur, End: next}
		cur = next
	}
	return out
}

// startGen draws a start position biased to tile and bin edges.
func posGen(limit int, minShift int) *rapid.Generator[int] {
	return rapid.Custom(func(t *rapid.T) int {
		var p int
		switch rapid.IntRange(0, 4).Draw(t, "pk") {
		case 0:
			p = rapid.IntRange(0, limit-1).Draw(t, "any")
		case 1:
			p = rapid.IntRange(0, (limit>>uint(minShift))).Draw(t, "tile")<<uint(minShift) + rapid.IntRange(-2, 2).Draw(t, "j")
		case 2:
			lvl := uint(minShift + 3*rapid.IntRange(0, 5).Draw(t, "lvl"))
			if (limit >> lvl) < 1 {
				lvl = uint(minShift)
			}
			p = rapid.IntRange(0, limit>>lvl).Draw(t, "k")<<lvl + rapid.IntRange(-2, 2).Draw(t, "j")
		case 3:
			p = rapid.IntRange(0, 5<<uint(minShift)).Draw(t, "low")
		default:
			p = limit - 1 - rapid.IntRange(0, 3<<uint(minShift)).Draw(t, "high")
		}
		if p < 0 {
			p = 0
		}
		if p > limit-1 {
			p = limit - 1
		}
		return p
	})
}

func lenGen(start, limit, minShift int) *rapid.Generator[int] {
	return rapid.Custom(func(t *rapid.T) int {
		tile := 1 << uint(minShift)
		var l int
		switch rapid.IntRange(0, 4).Draw(t, "lk") {
		case 0:
			l = 1
		case 1:
			l = rapid.IntRange(1, 200).Draw(t, "small")
		case 2: // up to the end of the tile, +-1
			l = tile - start%tile + rapid.IntRange(-1, 1).Draw(t, "j")
		case 3:
			l = rapid.SampledFrom([]int{tile, tile + 1, 8*tile - 1, 8*tile + 1, 64 * tile, 1 << 20, 1<<26 + 3}).Draw(t, "pow")
		default:
			l = rapid.IntRange(1, limit).Draw(t, "anyl")
		}
		if l < 1 {
			l = 1
		}
		if start+l > limit {
			l = limit - start
		}
		if l < 1 {
			l = 1
		}
		return l
	})
}

// SpecGen draws a sorted record set. csiGeom=false fixes the BAI geometry.
func SpecGen(csiGeom bool, maxRecs int) *rapid.Generator[Spec] {
	return rapid.Custom(func(t *rapid.T) Spec {
		s := Spec{NRefs: rapid.IntRange(1, 4).Draw(t, "nrefs"), MinShift: 14, Origin: rapid.SampledFrom([]int{0, 0, 1, 1, 2}).Draw(t, "origin")}
		if csiGeom {
			// ranges up to 2^40 (coordinates beyond 32 bits are legal in CSI). The depth
			// stays at 6: a whole-range query lists (8^(depth+1)-1)/7 bins.
			s.Depth = rapid.IntRange(1, 6).Draw(t, "depth")
			s.MinShift = rapid.IntRange(4, 24).Draw(t, "minshift")
			for s.MinShift+3*s.Depth > 40 {
				s.MinShift--
			}
			if rapid.IntRange(0, 2).Draw(t, "default") == 0 {
				s.MinShift, s.Depth = 14, 5
			}
		}
		limit := s.Limit()
		for ref := 0; ref < s.NRefs; ref++ {
			if rapid.IntRange(0, 4).Draw(t, "emptyRef") == 0 {
				continue
			}
			n := rapid.IntRange(1, maxRecs).Draw(t, "nrec")
			crowded := rapid.IntRange(0, 39).Draw(t, "crowded") == 0
			if crowded {
				// several hundred records in one window: bins with more than 512 chunks
				n = rapid.IntRange(500, 700).Draw(t, "crowd")
			}
			starts := make([]int, n)
			for i := range starts {
				starts[i] = posGen(limit, s.MinShift).Draw(t, "start")
			}
			if crowded {
				base := starts[0] &^ (1<<uint(s.MinShift) - 1)
				w := 1 << uint(s.MinShift)
				for i := range starts {
					starts[i] = base + (i*7)%w
					if starts[i] > limit-1 {
						starts[i] = limit - 1
					}
				}
			}
			// runs of records in neighbouring tiles are common in real data
			if !crowded && rapid.Bool().Draw(t, "dense") {
				base := starts[0]
				for i := range starts {
					starts[i] = base + i*rapid.IntRange(0, 3<<uint(s.MinShift)).Draw(t, "gap")
					if starts[i] > limit-1 {
						starts[i] = limit - 1
					}
				}
			}
			sort.Ints(starts)
			for _, st := range starts {
				r := IRec{Ref: ref, Start: st, Mapped: rapid.IntRange(0, 5).Draw(t, "mapped") != 0}
				if r.Mapped && crowded {
					r.End = st + 1 + st%13 // short: most of them stay in the window's own bin
					if r.End > limit {
						r.End = limit
					}
				} else if r.Mapped {
					r.End = st + lenGen(st, limit, s.MinShift).Draw(t, "len")
				} else {
					r.End = st + 1
				}
				r.Step = rapid.SampledFrom([]int{1, 30, 200, 4000, -100, -60000}).Draw(t, "step")
				s.Recs = append(s.Recs, r)
			}
		}
		if rapid.IntRange(0, 2).Draw(t, "mid?") == 0 {
			s.Mid = rapid.IntRange(1, 1000).Draw(t, "mid")
		}
		nun := rapid.SampledFrom([]int{0, 0, 1, 3}).Draw(t, "unplaced")
		for i := 0; i < nun; i++ {
			s.Recs = append(s.Recs, IRec{Ref: -1, Start: -1, End: 0, Step: 50})
		}
		return s
	})
}

// Query is one interval query.
type Query struct {
	Ref      int
	Beg, End int
}

// Queries derives a boundary-biased query set from the records (deterministic).
func (s Spec) Queries(max int) []Query {
	var qs []Query
	tile := 1 << uint(s.MinShift)
	limit := s.Limit()
	add := func(ref, b, e int) {
		if b < 0 {
			b = 0
		}
		if e > limit+1 {
			e = limit + 1
		}
		if e <= b {
			e = b + 1
		}
		qs = append(qs, Query{ref, b, e})
	}
	for ref := 0; ref < s.NRefs; ref++ {
		add(ref, 0, 1)
		add(ref, 0, limit)
		add(ref, limit-1, limit)
	}
	for i, r := range s.Recs {
		if r.Ref < 0 {
			continue
		}
		lastTile := (r.End - 1) / tile * tile
		add(r.Ref, r.Start, r.Start+1)
		add(r.Ref, r.End-1, r.End)
		add(r.Ref, r.End, r.End+1)
		add(r.Ref, r.Start-1, r.Start)
		add(r.Ref, lastTile, lastTile+1)
		add(r.Ref, lastTile+tile-1, lastTile+tile)
		add(r.Ref, r.Start/tile*tile, r.Start/tile*tile+tile)
		add(r.Ref, r.Start, r.End)
		add(r.Ref, (r.Start+r.End)/2, (r.Start+r.End)/2+1)
		if i%3 == 0 {
			add((r.Ref+1)%s.NRefs, r.Start, r.End)
			add(r.Ref, r.Start-3*tile, r.Start+1)
			add(r.Ref, r.End-1, r.End+8*tile)
		}
	}
	if len(qs) > max {
		// keep a spread
		step := float64(len(qs)) / float64(max)
		out := make([]Query, 0, max)
		for i := 0; i < max; i++ {
			out = append(out, qs[int(float64(i)*step)])
		}
		qs = out
	}
	return qs
}

func vo(o bgzf.Offset) int64 { return o.File<<16 | int64(o.Block) }

// Missing returns the index of an added record that overlaps q and is not
// covered by any chunk of the answer (-1 if none).
func (s Spec) Missing(q Query, layout []bgzf.Chunk, answer []bgzf.Chunk) int {
	for i, r := range s.Recs {
		if r.Ref != q.Ref || !(r.Start < q.End && r.End > q.Beg) {
			continue
		}
		covered := false
		for _, c := range answer {
			if vo(c.Begin) <= vo(layout[i].Begin) && vo(layout[i].End) <= vo(c.End) {
				covered = true
				break
			}
		}
		if !covered {
			return i
		}
	}
	return -1
}

// AnyOverlap reports whether any added record overlaps q.
func (s Spec) AnyOverlap(q Query) bool {
	for _, r := range s.Recs {
		if r.Ref == q.Ref && r.Start < q.End && r.End > q.Beg {
			return true
		}
	}
	return false
}

// Querier abstracts the three index kinds.
type Querier interface {
	Chunks(q Query) ([]bgzf.Chunk, error)
	Write() ([]byte, error)
	MergeChunks(s index.MergeStrategy)
	NumRefs() int
	ReferenceStats(id int) (index.ReferenceStats, bool)
	Unmapped() (uint64, bool)
	Kind() string
}

// ---- BAI ----

type BAI struct {
	Idx  *bam.Index
	Refs []*sam.Reference
}

func Header(n int) (*sam.Header, error) {
	var refs []*sam.Reference
	for i := 0; i < n; i++ {
		r, err := sam.NewReference(fmt.Sprintf("ref%d", i), "", "", 1<<29, nil, nil)
		if err != nil {
			return nil, err
		}
		refs = append(refs, r)
	}
	return sam.NewHeader(nil, refs)
}

// SamRecord builds the record the BAI index sees.
func SamRecord(r IRec, hd *sam.Header, i int) *sam.Record {
	rec := &sam.Record{Name: fmt.Sprintf("r%d", i), Pos: r.Start, MatePos: -1}
	if r.Ref < 0 {
		rec.Pos = -1
		rec.Flags = sam.Unmapped
		return rec
	}
	rec.Ref = hd.Refs()[r.Ref]
	if !r.Mapped {
		rec.Flags = sam.Unmapped
		if i%3 == 0 {
			// a pair of unmapped reads kept at a position (both flags set)
			rec.Flags |= sam.Paired | sam.MateUnmapped
		}
		return rec
	}
	l := r.End - r.Start
	for l > 0 {
		n := l
		if n > 1<<28-1 {
			n = 1<<28 - 1
		}
		rec.Cigar = append(rec.Cigar, sam.NewCigarOp(sam.CigarMatch, n))
		l -= n
	}
	return rec
}

// midway reports whether the half-built index is to be used after record i.
func (s Spec) midway(i int) bool {
	return s.Mid > 0 && len(s.Recs) > 0 && i == s.Mid%len(s.Recs)
}

// useHalfBuilt queries every reference over its whole range and writes the
// index, the way a caller may do before it adds more records.
func useHalfBuilt(q Querier, s Spec) {
	for ref := 0; ref < s.NRefs; ref++ {
		q.Chunks(Query{Ref: ref, Beg: 0, End: s.Limit()})
	}
	q.Write()
}

func BuildBAI(s Spec, layout []bgzf.Chunk) (*BAI, error) {
	hd, err := Header(s.NRefs)
	if err != nil {
		return nil, err
	}
	b := &BAI{Idx: &bam.Index{}, Refs: hd.Refs()}
	for i, r := range s.Recs {
		if err := b.Idx.Add(SamRecord(r, hd, i), layout[i]); err != nil {
			return nil, fmt.Errorf("Add(record %d = %+v, chunk %+v): %v", i, r, layout[i], err)
		}
		if s.midway(i) {
			useHalfBuilt(b, s)
		}
	}
	return b, nil
}

func (b *BAI) Chunks(q Query) ([]bgzf.Chunk, error) { return b.Idx.Chunks(b.Refs[q.Ref], q.Beg, q.End) }
func (b *BAI) Write() ([]byte, error) {
	var buf bytes.Buffer
	err := bam.WriteIndex(&buf, b.Idx)
	return buf.Bytes(), err
}
func (b *BAI) MergeChunks(s index.MergeStrategy)                  { b.Idx.MergeChunks(s) }
func (b *BAI) NumRefs() int                                       { return b.Idx.NumRefs() }
func (b *BAI) ReferenceStats(id int) (index.ReferenceStats, bool) { return b.Idx.ReferenceStats(id) }
func (b *BAI) Unmapped() (uint64, bool)                           { return b.Idx.Unmapped() }
func (b *BAI) Kind() string                                       { return "bai" }

// ReadBAI parses a serialised BAI.
// Fragment, when not empty, makes ReadBAI/ReadCSI/ReadTBX hand the bytes to
// the library through a reader that returns at most Fragment[i%len] bytes on
// its i-th call (index files are usually read through a decompressor, which
// returns short counts at block ends).
var Fragment []int

type fragReader struct {
	b []byte
	i int
}

func (f *fragReader) Read(p []byte) (int, error) {
	if len(f.b) == 0 {
		return 0, io.EOF
	}
	n := len(p)
	if c := Fragment[f.i%len(Fragment)]; c < n {
		n = c
	}
	f.i++
	if n > len(f.b) {
		n = len(f.b)
	}
	copy(p, f.b[:n])
	f.b = f.b[n:]
	return n, nil
}

func source(data []byte) io.Reader {
	if len(Fragment) == 0 {
		return bytes.NewReader(data)
	}
	return &fragReader{b: data}
}

func ReadBAI(data []byte, refs []*sam.Reference) (*BAI, error) {
	idx, err := bam.ReadIndex(source(data))
	if err != nil {
		return nil, err
	}
	if idx == nil {
		return nil, fmt.Errorf("ReadIndex returned a nil index")
	}
	return &BAI{Idx: idx, Refs: refs}, nil
}

// ---- CSI ----

type csiRec struct{ id, start, end int }

func (r csiRec) RefID() int { return r.id }
func (r csiRec) Start() int { return r.start }
func (r csiRec) End() int   { return r.end }

type CSI struct{ Idx *csi.Index }

func BuildCSI(s Spec, layout []bgzf.Chunk, version byte, aux []byte) (*CSI, error) {
	c := &CSI{Idx: csi.New(s.MinShift, s.Depth)}
	c.Idx.Version = version
	c.Idx.Auxilliary = aux
	for i, r := range s.Recs {
		if err := c.Idx.Add(csiRec{r.Ref, r.Start, r.End}, layout[i], r.Mapped, r.Ref >= 0); err != nil {
			return nil, fmt.Errorf("Add(record %d = %+v): %v", i, r, err)
		}
		if s.midway(i) {
			useHalfBuilt(c, s)
		}
	}
	return c, nil
}

func (c *CSI) Chunks(q Query) ([]bgzf.Chunk, error) { return c.Idx.Chunks(q.Ref, q.Beg, q.End), nil }
func (c *CSI) Write() ([]byte, error) {
	var buf bytes.Buffer
	err := csi.WriteTo(&buf, c.Idx)
	return buf.Bytes(), err
}
func (c *CSI) MergeChunks(s index.MergeStrategy)                  { c.Idx.MergeChunks(s) }
func (c *CSI) NumRefs() int                                       { return c.Idx.NumRefs() }
func (c *CSI) ReferenceStats(id int) (index.ReferenceStats, bool) { return c.Idx.ReferenceStats(id) }
func (c *CSI) Unmapped() (uint64, bool)                           { return c.Idx.Unmapped() }
func (c *CSI) Kind() string                                       { return "csi" }

func ReadCSI(data []byte) (*CSI, error) {
	idx, err := csi.ReadFrom(source(data))
	if err != nil {
		return nil, err
	}
	if idx == nil {
		return nil, fmt.Errorf("ReadFrom returned a nil index")
	}
	return &CSI{Idx: idx}, nil
}

// ---- tabix ----

type tbxRec struct {
	name       string
	start, end int
}

func (r tbxRec) RefName() string { return r.name }
func (r tbxRec) Start() int      { return r.start }
func (r tbxRec) End() int        { return r.end }

type TBX struct {
	Idx   *tabix.Index
	Names []string
}

func RefName(i int) string { return fmt.Sprintf("chr%d", i) }

func BuildTBX(s Spec, layout []bgzf.Chunk) (*TBX, error) {
	t := &TBX{Idx: tabix.New()}
	for i := 0; i < s.NRefs; i++ {
		t.Names = append(t.Names, RefName(i))
	}
	for i, r := range s.Recs {
		name := "*"
		if r.Ref >= 0 {
			name = RefName(r.Ref)
		}
		if err := t.Idx.Add(tbxRec{name, r.Start, r.End}, layout[i], r.Ref >= 0, r.Mapped); err != nil {
			return nil, fmt.Errorf("Add(record %d = %+v): %v", i, r, err)
		}
		if s.midway(i) {
			useHalfBuilt(t, s)
		}
	}
	return t, nil
}

func (t *TBX) Chunks(q Query) ([]bgzf.Chunk, error) {
	return t.Idx.Chunks(t.Names[q.Ref], q.Beg, q.End)
}
func (t *TBX) Write() ([]byte, error) {
	var buf bytes.Buffer
	err := tabix.WriteTo(&buf, t.Idx)
	return buf.Bytes(), err
}
func (t *TBX) MergeChunks(s index.MergeStrategy)                  { t.Idx.MergeChunks(s) }
func (t *TBX) NumRefs() int                                       { return t.Idx.NumRefs() }
func (t *TBX) ReferenceStats(id int) (index.ReferenceStats, bool) { return t.Idx.ReferenceStats(id) }
func (t *TBX) Unmapped() (uint64, bool)                           { return t.Idx.Unmapped() }
func (t *TBX) Kind() string                                       { return "tabix" }

func ReadTBX(data []byte, names []string) (*TBX, error) {
	idx, err := tabix.ReadFrom(source(data))
	if err != nil {
		return nil, err
	}
	if idx == nil {
		return nil, fmt.Errorf("ReadFrom returned a nil index")
	}
	return &TBX{Idx: idx, Names: names}, nil
}

// Strategies are the provided merge strategies.
var Strategies = []struct {
	Name string
	S    index.MergeStrategy
}{
	{"identity", index.Identity}, {"adjacent", index.Adjacent}, {"squash", index.Squash},
	{"compressor0", index.CompressorStrategy(0)}, {"compressor100", index.CompressorStrategy(100)}, {"compressor1e6", index.CompressorStrategy(1000000)},
}
