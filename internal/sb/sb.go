// Package sb holds what the SAM/BAM properties share: compact, serialisable
// descriptions of headers and records, rapid generators for them, their
// construction through the library's public API, and independent encoders
// written from the SAM specification (BAM record/header binary layout of
// section 4.2 and the SAM text line of section 1.4/1.5).
package sb

import (
	"encoding/binary"
	"encoding/hex"
	"fmt"
	"math"
	"net/url"
	"strconv"
	"strings"
	"time"

	"github.com/biogo/hts/sam"
	"pgregory.net/rapid"
)

// ---------------------------------------------------------------------------
// headers

type TagV struct{ T, V string }

type RefSpec struct {
	Name   string
	Len    int
	MD5    string // 32 hex digits or ""
	AS, SP string
	URI    string
	Tags   []TagV
}

type RGSpec struct {
	ID, CN, DS, LB, PG, PL, PU, SM, FO, KS string
	HasDate                                bool
	Unix                                   int64 // seconds
	ZoneMin                                int   // offset east of UTC in minutes
	PI                                     int
	Tags                                   []TagV
}

type PGSpec struct {
	ID, PN, CL, PP, VN string
	Tags               []TagV
}

type HSpec struct {
	Version     string
	SO, GO      int
	HDTags      []TagV
	Refs        []RefSpec
	RGs         []RGSpec
	Progs       []PGSpec
	Comments    []string
	LongComment int // if >0: one more comment line of this many bytes (lines longer than 64 KiB)
	Via         int // construction route: 0 Add* calls; 1 references handed to NewHeader; 2 parsed from its own text; 3 Clone; 4 decoded from its own binary form
}

func tag2(s string) sam.Tag { return sam.Tag{s[0], s[1]} }

// BuildRef constructs a reference through the public API.
func BuildRef(r RefSpec) (*sam.Reference, error) {
	var md5 []byte
	if r.MD5 != "" {
		md5, _ = hex.DecodeString(r.MD5)
	}
	var u *url.URL
	if r.URI != "" {
		var err error
		u, err = url.Parse(r.URI)
		if err != nil {
			return nil, err
		}
	}
	ref, err := sam.NewReference(r.Name, r.AS, r.SP, r.Len, md5, u)
	if err != nil {
		return nil, err
	}
	for _, tv := range r.Tags {
		if err := ref.Set(tag2(tv.T), tv.V); err != nil {
			return nil, err
		}
	}
	return ref, nil
}

// BuildRG constructs a read group through the public API.
func BuildRG(g RGSpec) (*sam.ReadGroup, error) {
	var date time.Time
	if g.HasDate {
		date = time.Unix(g.Unix, 0).In(time.FixedZone("", g.ZoneMin*60))
	}
	rg, err := sam.NewReadGroup(g.ID, g.CN, g.DS, g.LB, g.PG, g.PL, g.PU, g.SM, g.FO, g.KS, date, g.PI)
	if err != nil {
		return nil, err
	}
	for _, tv := range g.Tags {
		if err := rg.Set(tag2(tv.T), tv.V); err != nil {
			return nil, err
		}
	}
	return rg, nil
}

// BuildPG constructs a program through the public API.
func BuildPG(p PGSpec) (*sam.Program, error) {
	pg := sam.NewProgram(p.ID, p.PN, p.CL, p.PP, p.VN)
	for _, tv := range p.Tags {
		if err := pg.Set(tag2(tv.T), tv.V); err != nil {
			return nil, err
		}
	}
	return pg, nil
}

// Build constructs the header through the public API, by the route s.Via names.
func (s HSpec) Build() (*sam.Header, error) {
	h, err := s.build()
	if err != nil {
		return nil, err
	}
	switch s.Via {
	case 2:
		text, err := h.MarshalText()
		if err != nil {
			return nil, err
		}
		return sam.NewHeader(text, nil)
	case 3:
		return h.Clone(), nil
	case 4:
		b, err := h.MarshalBinary()
		if err != nil {
			return nil, err
		}
		d, err := sam.NewHeader(nil, nil)
		if err != nil {
			return nil, err
		}
		if err := d.UnmarshalBinary(b); err != nil {
			return nil, err
		}
		return d, nil
	}
	return h, nil
}

func (s HSpec) build() (*sam.Header, error) {
	var given []*sam.Reference
	if s.Via == 1 {
		for _, r := range s.Refs {
			ref, err := BuildRef(r)
			if err != nil {
				return nil, err
			}
			given = append(given, ref)
		}
	}
	h, err := sam.NewHeader(nil, given)
	if err != nil {
		return nil, err
	}
	h.Version = s.Version
	h.SortOrder = sam.SortOrder(s.SO)
	h.GroupOrder = sam.GroupOrder(s.GO)
	for _, tv := range s.HDTags {
		if err := h.Set(tag2(tv.T), tv.V); err != nil {
			return nil, err
		}
	}
	for _, r := range s.Refs {
		if s.Via == 1 {
			break
		}
		ref, err := BuildRef(r)
		if err != nil {
			return nil, err
		}
		if err := h.AddReference(ref); err != nil {
			return nil, fmt.Errorf("AddReference(%q): %v", r.Name, err)
		}
	}
	for _, g := range s.RGs {
		rg, err := BuildRG(g)
		if err != nil {
			return nil, err
		}
		if err := h.AddReadGroup(rg); err != nil {
			return nil, fmt.Errorf("AddReadGroup(%q): %v", g.ID, err)
		}
	}
	for _, p := range s.Progs {
		pg, err := BuildPG(p)
		if err != nil {
			return nil, err
		}
		if err := h.AddProgram(pg); err != nil {
			return nil, fmt.Errorf("AddProgram(%q): %v", p.ID, err)
		}
	}
	h.Comments = append([]string(nil), s.Comments...)
	if s.LongComment > 0 {
		h.Comments = append(h.Comments, strings.Repeat("c", s.LongComment))
	}
	return h, nil
}

var valGen = rapid.StringMatching(`[!-~]([ -~]{0,10}[!-~])?`)

// endGen draws values that may end in blanks (legal in header values, [ -~]+);
// used for fields that can be the last one on their line
var endGen = rapid.StringMatching(`[!-~]([ -~]{0,10}[!-~])? {0,2}`)

func optVal(t *rapid.T, label string) string {
	if rapid.IntRange(0, 2).Draw(t, label+"?") == 0 {
		return valGen.Draw(t, label)
	}
	return ""
}

func optEnd(t *rapid.T, label string) string {
	if rapid.IntRange(0, 2).Draw(t, label+"?") == 0 {
		return endGen.Draw(t, label)
	}
	return ""
}

func userTags(t *rapid.T, label string, max int) []TagV {
	tags := rapid.SliceOfNDistinct(rapid.StringMatching(`[a-z][a-z0-9]`), 0, max, func(s string) string { return s }).Draw(t, label)
	out := make([]TagV, len(tags))
	for i, tg := range tags {
		out[i] = TagV{tg, valGen.Draw(t, label+"v")}
	}
	return out
}

var NameGen = rapid.StringMatching(`[A-Za-z0-9_][A-Za-z0-9_.|:+-]{0,11}`)

// RefGen draws a reference description with the given name.
func RefGen(name string) *rapid.Generator[RefSpec] {
	return rapid.Custom(func(t *rapid.T) RefSpec {
		r := RefSpec{Name: name}
		r.Len = rapid.SampledFrom([]int{1, 2, 1000, 16384, 1 << 20, 1 << 29, 1<<31 - 1}).Draw(t, "len")
		if rapid.Bool().Draw(t, "anyLen") {
			r.Len = rapid.IntRange(1, 1<<31-1).Draw(t, "lenv")
		}
		if rapid.IntRange(0, 2).Draw(t, "md5?") == 0 {
			r.MD5 = hex.EncodeToString(rapid.SliceOfN(rapid.Byte(), 16, 16).Draw(t, "md5"))
			if r.MD5 == strings.Repeat("00", 16) {
				r.MD5 = "01" + r.MD5[2:]
			}
		}
		r.AS = optVal(t, "as")
		r.SP = optVal(t, "sp")
		if rapid.IntRange(0, 2).Draw(t, "uri?") == 0 {
			r.URI = rapid.SampledFrom([]string{"http://", "ftp://", "file:///"}).Draw(t, "scheme") + rapid.StringMatching(`[a-z]{1,8}(\.[a-z]{2,3})?/[a-zA-Z0-9_]{0,8}`).Draw(t, "rest")
		}
		r.Tags = userTags(t, "rtags", 2)
		return r
	})
}

// HSpecGen draws a header with up to maxRefs references.
func HSpecGen(minRefs, maxRefs int) *rapid.Generator[HSpec] {
	return rapid.Custom(func(t *rapid.T) HSpec {
		var s HSpec
		if rapid.IntRange(0, 3).Draw(t, "version?") != 0 {
			s.Version = rapid.StringMatching(`[0-9]\.[0-9]`).Draw(t, "version")
			s.SO = rapid.IntRange(0, 3).Draw(t, "so")
			s.GO = rapid.IntRange(0, 3).Draw(t, "go")
			s.HDTags = userTags(t, "hdtags", 2)
		}
		names := rapid.SliceOfNDistinct(NameGen, minRefs, maxRefs, func(s string) string { return s }).Draw(t, "refnames")
		for _, n := range names {
			s.Refs = append(s.Refs, RefGen(n).Draw(t, "ref"))
		}
		rgIDs := rapid.SliceOfNDistinct(NameGen, 0, 4, func(s string) string { return s }).Draw(t, "rgids")
		for _, id := range rgIDs {
			g := RGSpec{ID: id}
			g.CN, g.DS, g.LB, g.PG, g.PL = optVal(t, "cn"), optVal(t, "ds"), optVal(t, "lb"), optVal(t, "pg"), optVal(t, "pl")
			g.PU, g.SM, g.FO, g.KS = optVal(t, "pu"), optVal(t, "sm"), optVal(t, "fo"), optVal(t, "ks")
			if g.FO != "" && rapid.IntRange(0, 3).Draw(t, "fostar") == 0 {
				g.FO = "*" // the specification's spelling of "no flow order given"
			}
			if rapid.Bool().Draw(t, "date?") {
				g.HasDate = true
				// years 1..9999
				g.Unix = rapid.Int64Range(-62135596800+86400, 253402300799-86400).Draw(t, "unix")
				if rapid.Bool().Draw(t, "recent") {
					g.Unix = rapid.Int64Range(0, 2000000000).Draw(t, "unixr")
				}
				g.ZoneMin = rapid.SampledFrom([]int{0, 0, 60, -60, 330, -570, 840, -720, 1}).Draw(t, "zone")
			}
			if rapid.Bool().Draw(t, "pi?") {
				g.PI = rapid.IntRange(-(1<<31), 1<<31-1).Draw(t, "pi")
			}
			g.Tags = userTags(t, "rgtags", 2)
			s.RGs = append(s.RGs, g)
		}
		pgIDs := rapid.SliceOfNDistinct(NameGen, 0, 4, func(s string) string { return s }).Draw(t, "pgids")
		for _, id := range pgIDs {
			p := PGSpec{ID: id, PN: optVal(t, "pn"), CL: optEnd(t, "cl"), PP: optVal(t, "pp"), VN: optVal(t, "vn")}
			p.Tags = userTags(t, "pgtags", 2)
			s.Progs = append(s.Progs, p)
		}
		s.Comments = rapid.SliceOfN(endGen, 0, 3).Draw(t, "comments")
		s.Via = rapid.SampledFrom([]int{0, 0, 0, 1, 1, 2, 3, 4}).Draw(t, "via")
		if rapid.IntRange(0, 24).Draw(t, "longline") == 0 {
			s.LongComment = rapid.SampledFrom([]int{4090, 65530, 65536, 70000}).Draw(t, "longcomment")
		}
		return s
	})
}

// ---------------------------------------------------------------------------
// records

type COp struct {
	T byte // 0..9
	L int
}

// HStoredRaw makes the specification encoder spell an H field the way the
// library does (decoded bytes instead of hex digits): the known finding
// C05/aux-type-H. With it set, everything else about a record with an H field
// (framing, block size, the other fields) is still compared.
var HStoredRaw bool

// AAux is one auxiliary field. Ty is the BAM type letter.
type AAux struct {
	Tag string
	Ty  byte    // A c C s S i I f Z H B
	I   int64   // A (character code), c C s S i I
	F   float32 // f
	S   string  // Z (text); H (hex digits)
	ZN  int     // if >0: Z payload of this many derived characters instead of S
	Sub byte    // B: c C s S i I f
	BI  []int64
	BF  []float32
}

type ARec struct {
	Name      string
	Ref, Mate int // reference ids, -1 none
	Pos, MPos int
	MapQ      byte
	Flags     uint16
	TLen      int
	Cigar     []COp
	NCigar    int // if >0: this many derived CIGAR ops instead of Cigar
	SeqLen    int
	SeqSeed   uint64
	HasQual   bool
	Aux       []AAux
}

const seqCodes = "=ACMGRSVTWYHKDBN"

func mix(x uint64) uint64 {
	x += 0x9e3779b97f4a7c15
	x = (x ^ (x >> 30)) * 0xbf58476d1ce4e5b9
	x = (x ^ (x >> 27)) * 0x94d049bb133111eb
	return x ^ (x >> 31)
}

// SeqBytes derives the base characters.
func (r ARec) SeqBytes() []byte {
	b := make([]byte, r.SeqLen)
	for i := range b {
		b[i] = seqCodes[mix(r.SeqSeed+uint64(i)*31)&15]
	}
	return b
}

// QualBytes derives the phred values (nil if absent). Never all 0xff.
func (r ARec) QualBytes() []byte {
	if !r.HasQual {
		return nil
	}
	q := make([]byte, r.SeqLen)
	for i := range q {
		q[i] = byte(mix(r.SeqSeed^0xabc+uint64(i)) % 94)
	}
	if len(q) == 1 && q[0] == 9 {
		// a single quality of 9 is spelled "*", which SAM text cannot tell from "absent"
		q[0] = 10
	}
	return q
}

// CigarOps returns the explicit or derived CIGAR.
func (r ARec) CigarOps() []COp {
	if r.NCigar <= 0 {
		return r.Cigar
	}
	ops := make([]COp, r.NCigar)
	for i := range ops {
		v := mix(r.SeqSeed ^ uint64(i)*7)
		ops[i] = COp{T: byte(v % 9), L: int(v>>8) % 50}
	}
	return ops
}

// ZText returns the Z payload.
func (a AAux) ZText() string {
	if a.ZN <= 0 {
		return a.S
	}
	b := make([]byte, a.ZN)
	for i := range b {
		b[i] = byte('!' + mix(uint64(a.ZN)*131+uint64(i))%94)
	}
	return string(b)
}

// LibAux builds the library's Aux value through sam.NewAux.
func LibAux(a AAux) (sam.Aux, error) {
	t := sam.Tag{a.Tag[0], a.Tag[1]}
	switch a.Ty {
	case 'A':
		return sam.NewAux(t, sam.ASCII(byte(a.I)))
	case 'c':
		return sam.NewAux(t, int8(a.I))
	case 'C':
		return sam.NewAux(t, uint8(a.I))
	case 's':
		return sam.NewAux(t, int16(a.I))
	case 'S':
		return sam.NewAux(t, uint16(a.I))
	case 'i':
		return sam.NewAux(t, int32(a.I))
	case 'I':
		return sam.NewAux(t, uint32(a.I))
	case 'f':
		return sam.NewAux(t, a.F)
	case 'Z':
		return sam.NewAux(t, sam.Text(a.ZText()))
	case 'H':
		b, err := hex.DecodeString(a.S)
		if err != nil {
			return nil, err
		}
		return sam.NewAux(t, sam.Hex(b))
	case 'B':
		switch a.Sub {
		case 'c':
			v := make([]int8, len(a.BI))
			for i, x := range a.BI {
				v[i] = int8(x)
			}
			return sam.NewAux(t, v)
		case 'C':
			v := make([]uint8, len(a.BI))
			for i, x := range a.BI {
				v[i] = uint8(x)
			}
			return sam.NewAux(t, v)
		case 's':
			v := make([]int16, len(a.BI))
			for i, x := range a.BI {
				v[i] = int16(x)
			}
			return sam.NewAux(t, v)
		case 'S':
			v := make([]uint16, len(a.BI))
			for i, x := range a.BI {
				v[i] = uint16(x)
			}
			return sam.NewAux(t, v)
		case 'i':
			v := make([]int32, len(a.BI))
			for i, x := range a.BI {
				v[i] = int32(x)
			}
			return sam.NewAux(t, v)
		case 'I':
			v := make([]uint32, len(a.BI))
			for i, x := range a.BI {
				v[i] = uint32(x)
			}
			return sam.NewAux(t, v)
		case 'f':
			return sam.NewAux(t, append([]float32{}, a.BF...))
		}
	}
	return nil, fmt.Errorf("unknown aux type %c/%c", a.Ty, a.Sub)
}

// LibRecord builds the library record (struct literal: the exported fields
// are the documented way to assemble records that NewRecord's range checks
// refuse, e.g. an empty sequence).
func (r ARec) LibRecord(h *sam.Header) (*sam.Record, error) {
	rec := &sam.Record{Name: r.Name, Pos: r.Pos, MatePos: r.MPos, MapQ: r.MapQ, Flags: sam.Flags(r.Flags), TempLen: r.TLen}
	refs := h.Refs()
	if r.Ref >= 0 {
		rec.Ref = refs[r.Ref]
	}
	if r.Mate >= 0 {
		rec.MateRef = refs[r.Mate]
	}
	ops := r.CigarOps()
	if len(ops) > 0 {
		rec.Cigar = make(sam.Cigar, len(ops))
		for i, o := range ops {
			rec.Cigar[i] = sam.NewCigarOp(sam.CigarOpType(o.T), o.L)
		}
	}
	rec.Seq = sam.NewSeq(r.SeqBytes())
	rec.Qual = r.QualBytes()
	for _, a := range r.Aux {
		la, err := LibAux(a)
		if err != nil {
			return nil, err
		}
		rec.AuxFields = append(rec.AuxFields, la)
	}
	return rec, nil
}

// ---- independent BAM encoder (SAM spec section 4.2) ----

var seqNibble = func() [256]byte {
	var t [256]byte
	for i := range t {
		t[i] = 15
	}
	for i := 0; i < 16; i++ {
		t[seqCodes[i]] = byte(i)
	}
	return t
}()

func le16(b []byte, v uint16) []byte { return append(b, byte(v), byte(v>>8)) }
func le32(b []byte, v uint32) []byte { return append(b, byte(v), byte(v>>8), byte(v>>16), byte(v>>24)) }

// SpecAux encodes one auxiliary field as BAM bytes.
func SpecAux(b []byte, a AAux) []byte {
	b = append(b, a.Tag[0], a.Tag[1], a.Ty)
	switch a.Ty {
	case 'A', 'c', 'C':
		b = append(b, byte(a.I))
	case 's', 'S':
		b = le16(b, uint16(a.I))
	case 'i', 'I':
		b = le32(b, uint32(a.I))
	case 'f':
		b = le32(b, math.Float32bits(a.F))
	case 'Z':
		b = append(b, a.ZText()...)
		b = append(b, 0)
	case 'H':
		if HStoredRaw {
			// known finding C05 aux-type-H: the library stores the decoded bytes
			raw, _ := hex.DecodeString(a.S)
			b = append(b, raw...)
		} else {
			b = append(b, a.S...) // hex digits, NUL terminated
		}
		b = append(b, 0)
	case 'B':
		b = append(b, a.Sub)
		if a.Sub == 'f' {
			b = le32(b, uint32(len(a.BF)))
			for _, f := range a.BF {
				b = le32(b, math.Float32bits(f))
			}
			break
		}
		b = le32(b, uint32(len(a.BI)))
		for _, x := range a.BI {
			switch a.Sub {
			case 'c', 'C':
				b = append(b, byte(x))
			case 's', 'S':
				b = le16(b, uint16(x))
			default:
				b = le32(b, uint32(x))
			}
		}
	}
	return b
}

// SpecBAMRecord encodes the record (including block_size); the bin field is written as 0.
func SpecBAMRecord(r ARec) []byte {
	var v []byte
	v = le32(v, uint32(int32(r.Ref)))
	v = le32(v, uint32(int32(r.Pos)))
	v = append(v, byte(len(r.Name)+1), r.MapQ)
	v = le16(v, 0) // bin
	ops := r.CigarOps()
	v = le16(v, uint16(len(ops)))
	v = le16(v, r.Flags)
	v = le32(v, uint32(r.SeqLen))
	v = le32(v, uint32(int32(r.Mate)))
	v = le32(v, uint32(int32(r.MPos)))
	v = le32(v, uint32(int32(r.TLen)))
	v = append(v, r.Name...)
	v = append(v, 0)
	for _, o := range ops {
		v = le32(v, uint32(o.L)<<4|uint32(o.T))
	}
	seq := r.SeqBytes()
	for i := 0; i < len(seq); i += 2 {
		hi := seqNibble[seq[i]] << 4
		if i+1 < len(seq) {
			hi |= seqNibble[seq[i+1]]
		}
		v = append(v, hi)
	}
	if q := r.QualBytes(); q != nil {
		v = append(v, q...)
	} else {
		for i := 0; i < r.SeqLen; i++ {
			v = append(v, 0xff)
		}
	}
	for _, a := range r.Aux {
		v = SpecAux(v, a)
	}
	out := le32(nil, uint32(len(v)))
	return append(out, v...)
}

// SpecBAMHeader encodes the binary header around the given text.
func SpecBAMHeader(text []byte, refs []RefSpec) []byte {
	b := []byte{'B', 'A', 'M', 1}
	b = le32(b, uint32(len(text)))
	b = append(b, text...)
	b = le32(b, uint32(len(refs)))
	for _, r := range refs {
		b = le32(b, uint32(len(r.Name)+1))
		b = append(b, r.Name...)
		b = append(b, 0)
		b = le32(b, uint32(r.Len))
	}
	return b
}

// MaskBin zeroes the bin field of every record in a BAM record stream
// (records start at off).
func MaskBin(b []byte, off int) {
	for off+4 <= len(b) {
		n := int(binary.LittleEndian.Uint32(b[off:]))
		if off+4+n > len(b) || n < 32 {
			return
		}
		b[off+4+10], b[off+4+11] = 0, 0
		off += 4 + n
	}
}

// ---- independent SAM text formatter (SAM spec sections 1.4, 1.5) ----

var cigarLetters = "MIDNSHP=XB"

// FloatToken formats a float the way the harness compares it: tokens are
// compared by value, not spelling.
func FloatToken(f float32) string { return strconv.FormatFloat(float64(f), 'g', -1, 32) }

// SpecAuxText formats TAG:TYPE:VALUE.
func SpecAuxText(a AAux) string {
	switch a.Ty {
	case 'A':
		return fmt.Sprintf("%s:A:%c", a.Tag, byte(a.I))
	case 'c', 'C', 's', 'S', 'i', 'I':
		return fmt.Sprintf("%s:i:%d", a.Tag, a.I)
	case 'f':
		return fmt.Sprintf("%s:f:%s", a.Tag, FloatToken(a.F))
	case 'Z':
		return fmt.Sprintf("%s:Z:%s", a.Tag, a.ZText())
	case 'H':
		return fmt.Sprintf("%s:H:%s", a.Tag, a.S)
	}
	var sb strings.Builder
	fmt.Fprintf(&sb, "%s:B:%c", a.Tag, a.Sub)
	if a.Sub == 'f' {
		for _, f := range a.BF {
			sb.WriteString("," + FloatToken(f))
		}
	} else {
		for _, x := range a.BI {
			fmt.Fprintf(&sb, ",%d", x)
		}
	}
	return sb.String()
}

// SpecSAMLine formats the record as one SAM line (no newline); flagFmt 0 decimal, 1 hexadecimal.
func SpecSAMLine(r ARec, refs []RefSpec, flagFmt int) string {
	f := make([]string, 0, 12+len(r.Aux))
	f = append(f, r.Name)
	if flagFmt == 1 {
		f = append(f, fmt.Sprintf("0x%x", r.Flags))
	} else {
		f = append(f, strconv.Itoa(int(r.Flags)))
	}
	rname := "*"
	if r.Ref >= 0 {
		rname = refs[r.Ref].Name
	}
	f = append(f, rname, strconv.Itoa(r.Pos+1), strconv.Itoa(int(r.MapQ)))
	ops := r.CigarOps()
	if len(ops) == 0 {
		f = append(f, "*")
	} else {
		var sb strings.Builder
		for _, o := range ops {
			fmt.Fprintf(&sb, "%d%c", o.L, cigarLetters[o.T])
		}
		f = append(f, sb.String())
	}
	switch {
	case r.Mate < 0:
		f = append(f, "*")
	case r.Mate == r.Ref:
		f = append(f, "=")
	default:
		f = append(f, refs[r.Mate].Name)
	}
	f = append(f, strconv.Itoa(r.MPos+1), strconv.Itoa(r.TLen))
	if r.SeqLen == 0 {
		f = append(f, "*")
	} else {
		f = append(f, string(r.SeqBytes()))
	}
	if q := r.QualBytes(); q == nil || len(q) == 0 {
		f = append(f, "*")
	} else {
		b := make([]byte, len(q))
		for i, v := range q {
			b[i] = v + 33
		}
		f = append(f, string(b))
	}
	for _, a := range r.Aux {
		f = append(f, SpecAuxText(a))
	}
	return strings.Join(f, "\t")
}

// ---- record generators ----

var intEdges = map[byte][]int64{
	'c': {-128, -1, 0, 1, 127},
	'C': {0, 1, 127, 128, 255},
	's': {-32768, -129, -128, 127, 128, 32767},
	'S': {0, 255, 256, 32767, 32768, 65535},
	'i': {-2147483648, -32769, -32768, 32767, 32768, 65535, 65536, 2147483647},
	'I': {0, 65535, 65536, 2147483647, 2147483648, 4294967295},
}

var floatEdges = []float32{0, 1, -1, 0.5, 1e-38, 1e38, -3.4028235e38, 1.4e-45, float32(math.Inf(1)), float32(math.Inf(-1)), 3.1415927, 16777216, 0.1}

// AuxOpt tunes the aux generator.
type AuxOpt struct {
	NoH     bool // exclude type H
	NoEmpty bool // exclude empty Z / H / B payloads
}

// AuxGen draws one auxiliary field.
func AuxGen(tag string, o AuxOpt) *rapid.Generator[AAux] {
	return rapid.Custom(func(t *rapid.T) AAux {
		types := []byte("AcCsSiIfZZBBH")
		if o.NoH {
			types = types[:len(types)-1]
		}
		a := AAux{Tag: tag, Ty: rapid.SampledFrom(types).Draw(t, "ty")}
		minLen := 0
		if o.NoEmpty {
			minLen = 1
		}
		intVal := func(ty byte, label string) int64 {
			if rapid.Bool().Draw(t, label+"edge") {
				return rapid.SampledFrom(intEdges[ty]).Draw(t, label+"e")
			}
			e := intEdges[ty]
			return rapid.Int64Range(e[0], e[len(e)-1]).Draw(t, label+"v")
		}
		switch a.Ty {
		case 'A':
			a.I = int64(rapid.IntRange('!', '~').Draw(t, "ch"))
		case 'c', 'C', 's', 'S', 'i', 'I':
			a.I = intVal(a.Ty, "int")
		case 'f':
			a.F = rapid.SampledFrom(floatEdges).Draw(t, "fe")
			if rapid.Bool().Draw(t, "anyf") {
				a.F = rapid.Float32().Draw(t, "fv")
			}
		case 'Z':
			a.S = rapid.StringMatching(fmt.Sprintf(`[ -~]{%d,12}`, minLen)).Draw(t, "z")
		case 'H':
			n := rapid.IntRange(minLen, 6).Draw(t, "hn")
			a.S = strings.ToUpper(hex.EncodeToString(rapid.SliceOfN(rapid.ByteRange(1, 255), n, n).Draw(t, "h")))
		case 'B':
			a.Sub = rapid.SampledFrom([]byte("cCsSiIf")).Draw(t, "sub")
			n := rapid.IntRange(minLen, 8).Draw(t, "bn")
			if a.Sub == 'f' {
				a.BF = make([]float32, n)
				for i := range a.BF {
					a.BF[i] = rapid.SampledFrom(floatEdges).Draw(t, "bf")
				}
			} else {
				a.BI = make([]int64, n)
				for i := range a.BI {
					a.BI[i] = intVal(a.Sub, "bi")
				}
			}
		}
		return a
	})
}

// RecOpt tunes the record generator.
type RecOpt struct {
	NRefs    int
	Aux      AuxOpt
	Valid    bool // CIGAR consistent with the sequence, qualities 0..93 (SAM text domain)
	BigSizes bool // allow records around the 4 KiB and 64 KiB edges and very long CIGARs
	MaxAux   int
}

var posEdges = []int{-1, 0, 1, 16383, 16384, 16385, 1<<29 - 1, 1 << 29, 1<<29 + 1, 1<<31 - 2}

// RecGen draws a record.
func RecGen(o RecOpt) *rapid.Generator[ARec] {
	return rapid.Custom(func(t *rapid.T) ARec {
		var r ARec
		r.Name = rapid.StringMatching(`[!-?A-~]{1,20}`).Draw(t, "name")
		if rapid.IntRange(0, 19).Draw(t, "longName") == 0 {
			r.Name = strings.Repeat("n", rapid.SampledFrom([]int{253, 254}).Draw(t, "nl"))
		}
		r.Ref, r.Mate = -1, -1
		r.Pos, r.MPos = -1, -1
		if o.NRefs > 0 && rapid.IntRange(0, 4).Draw(t, "placed") != 0 {
			r.Ref = rapid.IntRange(0, o.NRefs-1).Draw(t, "ref")
			r.Pos = rapid.SampledFrom(posEdges[1:]).Draw(t, "pos")
			if rapid.Bool().Draw(t, "anyPos") {
				r.Pos = rapid.IntRange(0, 1<<29-1).Draw(t, "posv")
			}
		}
		if o.NRefs > 0 {
			switch rapid.IntRange(0, 3).Draw(t, "mate") {
			case 0:
			case 1:
				if r.Ref >= 0 {
					r.Mate = r.Ref
				}
			default:
				r.Mate = rapid.IntRange(0, o.NRefs-1).Draw(t, "mateRef")
			}
			if r.Mate >= 0 {
				r.MPos = rapid.SampledFrom(posEdges[1:]).Draw(t, "mpos")
			}
		}
		r.MapQ = byte(rapid.IntRange(0, 255).Draw(t, "mapq"))
		r.Flags = rapid.Uint16().Draw(t, "flags")
		if o.Valid {
			r.Flags &= 0xfff
		}
		r.TLen = rapid.SampledFrom([]int{0, 1, -1, 300, -(1 << 31), 1<<31 - 1}).Draw(t, "tlen")
		r.SeqSeed = uint64(rapid.IntRange(0, 1<<20).Draw(t, "seed"))
		r.SeqLen = rapid.SampledFrom([]int{0, 1, 2, 3, 4, 5, 10, 33, 100, 255, 256, 257, 512}).Draw(t, "seqlen")
		if o.BigSizes {
			switch rapid.IntRange(0, 14).Draw(t, "big") {
			case 0: // around the reader's 4096-byte inline buffer (size = 32+name+1+4*ncigar+ceil(l/2)+l+aux)
				r.SeqLen = (4096-33-len(r.Name))*2/3 + rapid.IntRange(-4, 4).Draw(t, "d4k")
			case 1: // larger than one BGZF block
				r.SeqLen = rapid.SampledFrom([]int{43490, 43500, 50000, 70001}).Draw(t, "d64k")
			case 2:
				if !o.Valid { // derived ops are not consistent with the sequence
					r.NCigar = rapid.SampledFrom([]int{1000, 65535}).Draw(t, "ncig")
				}
			}
		}
		if r.SeqLen > 0 || !o.Valid {
			r.HasQual = rapid.Bool().Draw(t, "qual")
		}
		if r.SeqLen == 0 {
			r.HasQual = false
		}
		if r.NCigar == 0 {
			n := rapid.SampledFrom([]int{0, 0, 1, 2, 3, 5, 20}).Draw(t, "ncigar")
			if o.Valid {
				r.Cigar = validCigar(t, r.SeqLen, n)
			} else {
				r.Cigar = rapid.SliceOfN(rapid.Custom(func(t *rapid.T) COp {
					return COp{T: byte(rapid.IntRange(0, 9).Draw(t, "op")), L: rapid.SampledFrom([]int{0, 1, 2, 10, 100, 1<<28 - 1}).Draw(t, "oplen")}
				}), n, n).Draw(t, "cigar")
			}
		}
		maxAux := o.MaxAux
		if maxAux == 0 {
			maxAux = 5
		}
		tags := rapid.SliceOfNDistinct(rapid.StringMatching(`[A-Za-z][A-Za-z0-9]`), 0, maxAux, func(s string) string { return s }).Draw(t, "tags")
		for _, tg := range tags {
			r.Aux = append(r.Aux, AuxGen(tg, o.Aux).Draw(t, "aux"))
		}
		if o.BigSizes && rapid.IntRange(0, 19).Draw(t, "bigZ") == 0 {
			r.Aux = append(r.Aux, AAux{Tag: "zz", Ty: 'Z', ZN: rapid.SampledFrom([]int{4000, 66000}).Draw(t, "zn")})
		}
		return r
	})
}

// validCigar draws a CIGAR whose query length equals seqLen (or none).
func validCigar(t *rapid.T, seqLen, n int) []COp {
	if n == 0 || seqLen == 0 {
		return nil
	}
	// split seqLen over query-consuming ops, sprinkle D/N/P between, optional clips
	var ops []COp
	left := seqLen
	if rapid.IntRange(0, 3).Draw(t, "hclipL") == 0 {
		ops = append(ops, COp{5, rapid.IntRange(0, 9).Draw(t, "hl")}) // zero-length operations are legal ([0-9]+ in the grammar)
	}
	if left > 1 && rapid.IntRange(0, 3).Draw(t, "sclipL") == 0 {
		l := rapid.IntRange(1, left-1).Draw(t, "sl")
		ops = append(ops, COp{4, l})
		left -= l
	}
	tailS := 0
	if left > 1 && rapid.IntRange(0, 3).Draw(t, "sclipR") == 0 {
		tailS = rapid.IntRange(1, left-1).Draw(t, "sr")
		left -= tailS
	}
	for k := 0; left > 0 && k < n; k++ {
		l := left
		if k < n-1 && left > 1 {
			l = rapid.IntRange(1, left).Draw(t, "ql")
		}
		ops = append(ops, COp{rapid.SampledFrom([]byte{0, 0, 1, 7, 8}).Draw(t, "qop"), l})
		left -= l
		if left > 0 && rapid.Bool().Draw(t, "gap") {
			ops = append(ops, COp{rapid.SampledFrom([]byte{2, 3, 6}).Draw(t, "gop"), rapid.SampledFrom([]int{0, 1, 1, 2, 17, 1000}).Draw(t, "gl")})
		}
	}
	if left > 0 {
		ops = append(ops, COp{0, left})
	}
	if tailS > 0 {
		ops = append(ops, COp{4, tailS})
	}
	if rapid.IntRange(0, 3).Draw(t, "hclipR") == 0 {
		ops = append(ops, COp{5, rapid.IntRange(0, 9).Draw(t, "hr")})
	}
	return ops
}
