// Package bz holds what the BGZF properties share: payload derivation, an
// independent RFC 1952 / BGZF member walker and encoder (no code shared with
// biogo/hts), a flat-file model of a BGZF stream and I/O shims.
package bz

import (
	"bytes"
	"compress/flate"
	"compress/gzip"
	"encoding/binary"
	"errors"
	"fmt"
	"hash/crc32"
	"io"
	"sync"
	"time"
)

const (
	BlockSize    = 0xff00  // SAM spec 4.1: at most 65280 bytes of payload per block
	MaxBlockSize = 0x10000 // a member is at most 64 KiB
)

// EOFMarker is the 28-byte empty BGZF block of SAM spec section 4.1.2.
var EOFMarker = []byte{0x1f, 0x8b, 0x08, 0x04, 0, 0, 0, 0, 0, 0xff, 0x06, 0, 0x42, 0x43, 0x02, 0, 0x1b, 0, 0x03, 0, 0, 0, 0, 0, 0, 0, 0, 0}

// Pay describes a payload compactly; Bytes derives the content.
type Pay struct {
	Kind int // 0 zeros with markers, 1 small-alphabet text, 2 pseudo-random (incompressible), 3 mixture, 4 all zeros
	Seed uint64
	Len  int
}

func splitmix(x *uint64) uint64 {
	*x += 0x9e3779b97f4a7c15
	z := *x
	z = (z ^ (z >> 30)) * 0xbf58476d1ce4e5b9
	z = (z ^ (z >> 27)) * 0x94d049bb133111eb
	return z ^ (z >> 31)
}

// Bytes returns the payload content.
func (p Pay) Bytes() []byte {
	b := make([]byte, p.Len)
	x := p.Seed*2654435761 + 12345
	switch p.Kind {
	case 0:
		// zeros with a position-dependent marker every 251 bytes so that
		// misplaced data does not go unnoticed
		for i := 0; i < len(b); i += 251 {
			b[i] = byte(p.Seed) + byte(i/251)
		}
	case 1:
		const alpha = "ACGTN\n\t acgt0123"
		for i := 0; i < len(b); {
			r := splitmix(&x)
			for k := 0; k < 16 && i < len(b); k++ {
				b[i] = alpha[r&15]
				r >>= 4
				i++
			}
		}
	case 4:
		// all zeros: a full block that compresses to a member of about a hundred bytes
	case 2:
		for i := 0; i < len(b); {
			r := splitmix(&x)
			for k := 0; k < 8 && i < len(b); k++ {
				b[i] = byte(r)
				r >>= 8
				i++
			}
		}
	default:
		for i := 0; i < len(b); {
			r := splitmix(&x)
			run := int(r>>8)%700 + 1
			if r&1 == 0 {
				v := byte(r >> 32)
				for k := 0; k < run && i < len(b); k++ {
					b[i] = v
					i++
				}
			} else {
				for k := 0; k < run && i < len(b); k++ {
					b[i] = byte(splitmix(&x))
					i++
				}
			}
		}
	}
	return b
}

// Sub is one gzip extra sub-field.
type Sub struct {
	ID   [2]byte
	Data []byte
}

// Member is one parsed gzip member of a BGZF stream.
type Member struct {
	Off, Size int // position and length in the stream
	Data      []byte
	FLG, XFL  byte
	OS        byte
	MTime     uint32
	Subs      []Sub
	BSize     int // value of the BC sub-field
	Name      string
	Comment   string
}

type byteReader struct {
	b   []byte
	pos int
}

func (r *byteReader) Read(p []byte) (int, error) {
	if r.pos >= len(r.b) {
		return 0, io.EOF
	}
	// hand out one byte at a time: flate must not be able to over-read
	p[0] = r.b[r.pos]
	r.pos++
	return 1, nil
}
func (r *byteReader) ReadByte() (byte, error) {
	if r.pos >= len(r.b) {
		return 0, io.EOF
	}
	c := r.b[r.pos]
	r.pos++
	return c, nil
}

// ParseMember parses the gzip member starting at b[off] following RFC 1952
// and the BGZF rules of the SAM specification section 4.1.
func ParseMember(b []byte, off int) (Member, error) {
	m := Member{Off: off}
	p := b[off:]
	if len(p) < 18 {
		return m, fmt.Errorf("member at %d: only %d bytes left", off, len(p))
	}
	if p[0] != 0x1f || p[1] != 0x8b {
		return m, fmt.Errorf("member at %d: bad magic % x", off, p[:2])
	}
	if p[2] != 8 {
		return m, fmt.Errorf("member at %d: compression method %d", off, p[2])
	}
	m.FLG = p[3]
	if m.FLG&0xe0 != 0 {
		return m, fmt.Errorf("member at %d: reserved FLG bits set (%#x)", off, m.FLG)
	}
	if m.FLG&4 == 0 {
		return m, fmt.Errorf("member at %d: FLG.FEXTRA not set (%#x)", off, m.FLG)
	}
	m.MTime = binary.LittleEndian.Uint32(p[4:8])
	m.XFL = p[8]
	m.OS = p[9]
	xlen := int(binary.LittleEndian.Uint16(p[10:12]))
	pos := 12
	if len(p) < pos+xlen {
		return m, fmt.Errorf("member at %d: XLEN %d beyond data", off, xlen)
	}
	ex := p[pos : pos+xlen]
	pos += xlen
	bc := 0
	for i := 0; i < len(ex); {
		if i+4 > len(ex) {
			return m, fmt.Errorf("member at %d: truncated extra sub-field header", off)
		}
		l := int(binary.LittleEndian.Uint16(ex[i+2 : i+4]))
		if i+4+l > len(ex) {
			return m, fmt.Errorf("member at %d: extra sub-field %c%c length %d beyond XLEN", off, ex[i], ex[i+1], l)
		}
		s := Sub{ID: [2]byte{ex[i], ex[i+1]}, Data: append([]byte(nil), ex[i+4:i+4+l]...)}
		m.Subs = append(m.Subs, s)
		if s.ID == [2]byte{'B', 'C'} {
			bc++
			if l != 2 {
				return m, fmt.Errorf("member at %d: BC sub-field has length %d", off, l)
			}
			m.BSize = int(binary.LittleEndian.Uint16(s.Data))
		}
		i += 4 + l
	}
	if bc != 1 {
		return m, fmt.Errorf("member at %d: %d BC sub-fields", off, bc)
	}
	if m.FLG&8 != 0 {
		i := bytes.IndexByte(p[pos:], 0)
		if i < 0 {
			return m, fmt.Errorf("member at %d: unterminated FNAME", off)
		}
		m.Name = string(p[pos : pos+i])
		pos += i + 1
	}
	if m.FLG&16 != 0 {
		i := bytes.IndexByte(p[pos:], 0)
		if i < 0 {
			return m, fmt.Errorf("member at %d: unterminated FCOMMENT", off)
		}
		m.Comment = string(p[pos : pos+i])
		pos += i + 1
	}
	if m.FLG&2 != 0 {
		if len(p) < pos+2 {
			return m, fmt.Errorf("member at %d: truncated FHCRC", off)
		}
		want := uint16(crc32.ChecksumIEEE(p[:pos]))
		if binary.LittleEndian.Uint16(p[pos:]) != want {
			return m, fmt.Errorf("member at %d: header CRC mismatch", off)
		}
		pos += 2
	}
	br := &byteReader{b: p, pos: pos}
	fr := flate.NewReader(br)
	data, err := io.ReadAll(fr)
	if err != nil {
		return m, fmt.Errorf("member at %d: deflate stream: %v", off, err)
	}
	pos = br.pos
	if len(p) < pos+8 {
		return m, fmt.Errorf("member at %d: truncated trailer", off)
	}
	if got, want := binary.LittleEndian.Uint32(p[pos:]), crc32.ChecksumIEEE(data); got != want {
		return m, fmt.Errorf("member at %d: CRC32 %#x, data has %#x", off, got, want)
	}
	if got := binary.LittleEndian.Uint32(p[pos+4:]); got != uint32(len(data)) {
		return m, fmt.Errorf("member at %d: ISIZE %d, data has %d bytes", off, got, len(data))
	}
	m.Size = pos + 8
	m.Data = data
	if m.BSize+1 != m.Size {
		return m, fmt.Errorf("member at %d: BSIZE+1 = %d but the member is %d bytes long", off, m.BSize+1, m.Size)
	}
	if m.Size > MaxBlockSize {
		return m, fmt.Errorf("member at %d: %d bytes long (> 64 KiB)", off, m.Size)
	}
	if len(data) > BlockSize {
		return m, fmt.Errorf("member at %d: payload %d bytes (> %d)", off, len(data), BlockSize)
	}
	return m, nil
}

// Walk parses a whole stream into members. It returns the members parsed so
// far and an error describing the first problem.
func Walk(b []byte) ([]Member, error) {
	var ms []Member
	for off := 0; off < len(b); {
		m, err := ParseMember(b, off)
		if err != nil {
			return ms, err
		}
		ms = append(ms, m)
		off += m.Size
	}
	return ms, nil
}

// Concat returns the concatenated payloads.
func Concat(ms []Member) []byte {
	var out []byte
	for _, m := range ms {
		out = append(out, m.Data...)
	}
	return out
}

// GunzipAll expands a multi-member gzip stream with the standard library.
func GunzipAll(b []byte) ([]byte, error) {
	if len(b) == 0 {
		return nil, nil
	}
	zr, err := gzip.NewReader(bytes.NewReader(b))
	if err != nil {
		return nil, err
	}
	return io.ReadAll(zr)
}

// HasMarker reports whether the stream ends with the 28-byte EOF marker.
func HasMarker(b []byte) bool {
	return len(b) >= len(EOFMarker) && bytes.Equal(b[len(b)-len(EOFMarker):], EOFMarker)
}

// EncodeMember builds one BGZF member with the harness' own encoder:
// compress/gzip for the deflate stream and trailer, BC first in the extra
// field, BSIZE patched at its fixed offset.
func EncodeMember(data []byte, level int) []byte {
	var buf bytes.Buffer
	zw, err := gzip.NewWriterLevel(&buf, level)
	if err != nil {
		panic(err)
	}
	zw.Header.Extra = []byte{'B', 'C', 2, 0, 0, 0}
	zw.Header.OS = 0xff
	if _, err := zw.Write(data); err != nil {
		panic(err)
	}
	if err := zw.Close(); err != nil {
		panic(err)
	}
	b := buf.Bytes()
	if len(b) > MaxBlockSize {
		panic("bz: member too large")
	}
	binary.LittleEndian.PutUint16(b[16:18], uint16(len(b)-1))
	return b
}

// M is one member of a model file.
type M struct {
	Base  int64 // file offset of the member
	Len   int   // payload length
	Start int   // offset of the payload in Flat
	Size  int   // member length in bytes
}

// File is the flat-file model of a BGZF stream.
type File struct {
	Bytes   []byte
	Members []M
	Flat    []byte
}

// BuildFile encodes the payloads (empty payloads give empty members; a
// payload equal to nil with marker=true is spelled as the EOF marker).
func BuildFile(payloads [][]byte, level int, marker bool) *File {
	f := &File{}
	for _, p := range payloads {
		enc := EncodeMember(p, level)
		f.Members = append(f.Members, M{Base: int64(len(f.Bytes)), Len: len(p), Start: len(f.Flat), Size: len(enc)})
		f.Bytes = append(f.Bytes, enc...)
		f.Flat = append(f.Flat, p...)
	}
	if marker {
		f.Members = append(f.Members, M{Base: int64(len(f.Bytes)), Len: 0, Start: len(f.Flat), Size: len(EOFMarker)})
		f.Bytes = append(f.Bytes, EOFMarker...)
	}
	return f
}

// FileFromBytes builds the model of an existing stream with the walker.
func FileFromBytes(b []byte) (*File, error) {
	ms, err := Walk(b)
	if err != nil {
		return nil, err
	}
	f := &File{Bytes: b}
	for _, m := range ms {
		f.Members = append(f.Members, M{Base: int64(m.Off), Len: len(m.Data), Start: len(f.Flat), Size: m.Size})
		f.Flat = append(f.Flat, m.Data...)
	}
	return f, nil
}

// Logical translates a virtual offset (file, block) into a position in Flat.
// ok is false if file is not a member start (or the end of the file) or the
// in-block offset exceeds the member's payload.
func (f *File) Logical(file int64, block int) (int, bool) {
	if file == int64(len(f.Bytes)) && block == 0 {
		return len(f.Flat), true
	}
	for _, m := range f.Members {
		if m.Base == file {
			if block > m.Len {
				return 0, false
			}
			return m.Start + block, true
		}
	}
	return 0, false
}

// ---------------------------------------------------------------------------
// I/O shims

// ErrInjected is the error the shims return at a fault point.
var ErrInjected = errors.New("verif: injected I/O fault")

// Fault describes a fault at underlying call index K.
type Fault struct {
	K       int  // index of the underlying call that fails (-1: none)
	Partial bool // deliver part of the data before failing
	Sticky  bool // keep failing afterwards
}

// RecWriter records everything written, per call, and can delay or fail.
type RecWriter struct {
	mu     sync.Mutex
	buf    []byte
	Cuts   []int // cumulative length after each underlying Write returned
	Calls  int
	Fault  Fault
	failed bool
	Delays []int // microseconds, indexed by call number modulo len
	Err    error // error to inject (default ErrInjected)
	muted  bool  // the run is over: accept and forget (cleanup of a writer that the script left open)
}

// Mute makes the writer accept and drop everything from now on.
func (w *RecWriter) Mute() {
	w.mu.Lock()
	w.muted = true
	w.mu.Unlock()
}

func NewRecWriter() *RecWriter { return &RecWriter{Fault: Fault{K: -1}} }

func (w *RecWriter) Write(p []byte) (int, error) {
	w.mu.Lock()
	if w.muted {
		w.mu.Unlock()
		return len(p), nil
	}
	k := w.Calls
	w.Calls++
	var d int
	if len(w.Delays) > 0 {
		d = w.Delays[k%len(w.Delays)]
	}
	fail := (w.Fault.K >= 0 && k == w.Fault.K) || (w.failed && w.Fault.Sticky)
	w.mu.Unlock()
	if d > 0 {
		time.Sleep(time.Duration(d) * time.Microsecond)
	}
	w.mu.Lock()
	defer w.mu.Unlock()
	if fail {
		w.failed = true
		n := 0
		if w.Fault.Partial && len(p) > 1 {
			n = len(p) / 2
			w.buf = append(w.buf, p[:n]...)
		}
		e := w.Err
		if e == nil {
			e = ErrInjected
		}
		return n, e
	}
	w.buf = append(w.buf, p...)
	w.Cuts = append(w.Cuts, len(w.buf))
	return len(p), nil
}

// Bytes returns a copy of what has been delivered so far.
func (w *RecWriter) Bytes() []byte {
	w.mu.Lock()
	defer w.mu.Unlock()
	return append([]byte(nil), w.buf...)
}

// Len returns the number of bytes delivered so far.
func (w *RecWriter) Len() int {
	w.mu.Lock()
	defer w.mu.Unlock()
	return len(w.buf)
}

// Failed reports whether a fault has been delivered.
func (w *RecWriter) Failed() bool {
	w.mu.Lock()
	defer w.mu.Unlock()
	return w.failed
}

// FaultReader is an io.ReadSeeker over a byte slice that counts underlying
// calls (Read and Seek share one counter) and can fail or delay at call K.
type FaultReader struct {
	mu      sync.Mutex
	b       []byte
	pos     int64
	Calls   int
	Fault   Fault
	failed  bool
	Delays  []int
	MaxRead int // if >0, deliver at most this many bytes per Read (short reads are legal)
	Failed  bool
}

func NewFaultReader(b []byte) *FaultReader { return &FaultReader{b: b, Fault: Fault{K: -1}} }

func (r *FaultReader) enter() (fail bool) {
	r.mu.Lock()
	k := r.Calls
	r.Calls++
	var d int
	if len(r.Delays) > 0 {
		d = r.Delays[k%len(r.Delays)]
	}
	fail = (r.Fault.K >= 0 && k == r.Fault.K) || (r.failed && r.Fault.Sticky)
	if fail {
		r.failed = true
		r.Failed = true
	}
	r.mu.Unlock()
	if d > 0 {
		time.Sleep(time.Duration(d) * time.Microsecond)
	}
	return fail
}

func (r *FaultReader) Read(p []byte) (int, error) {
	fail := r.enter()
	r.mu.Lock()
	defer r.mu.Unlock()
	if fail {
		n := 0
		if r.Fault.Partial && len(p) > 1 && r.pos < int64(len(r.b)) {
			n = copy(p[:(len(p)+1)/2], r.b[r.pos:])
			r.pos += int64(n)
		}
		return n, ErrInjected
	}
	if r.pos >= int64(len(r.b)) {
		return 0, io.EOF
	}
	if r.MaxRead > 0 && len(p) > r.MaxRead {
		p = p[:r.MaxRead]
	}
	n := copy(p, r.b[r.pos:])
	r.pos += int64(n)
	return n, nil
}

func (r *FaultReader) Seek(off int64, whence int) (int64, error) {
	fail := r.enter()
	r.mu.Lock()
	defer r.mu.Unlock()
	if fail {
		return r.pos, ErrInjected
	}
	var abs int64
	switch whence {
	case io.SeekStart:
		abs = off
	case io.SeekCurrent:
		abs = r.pos + off
	case io.SeekEnd:
		abs = int64(len(r.b)) + off
	}
	if abs < 0 {
		return r.pos, errors.New("verif: negative seek")
	}
	r.pos = abs
	return abs, nil
}

// NCalls returns the number of underlying calls so far.
func (r *FaultReader) NCalls() int {
	r.mu.Lock()
	defer r.mu.Unlock()
	return r.Calls
}
