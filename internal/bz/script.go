package bz

import (
	"fmt"
	"sync/atomic"
	"time"

	"github.com/biogo/hts/bgzf"
	"pgregory.net/rapid"

	"verif/internal/h"
)

// WOp is one writer operation.
type WOp struct {
	K     string // write, fill, flush, wait
	P     Pay    // write: the payload; fill: Kind/Seed of the content
	Delta int    // fill: write BlockSize-Next()+Delta bytes
}

// Hdr holds gzip header settings for the writer (nil = defaults).
type Hdr struct {
	Name    string
	Comment string
	Extra   []Sub
	OS      int   // -1 = leave the default
	MTime   int64 // seconds since the epoch; 0 = zero time
}

// Script is a writer workload.
type Script struct {
	Level   int
	WC      int
	Ops     []WOp
	Hdr     *Hdr
	NoClose bool   // end with Flush+Wait instead of Close
	Delays  []int  // microseconds per underlying Write (cyclic)
	Fault   *Fault // optional fault of the underlying writer
}

// Snap is the state of the sink right after an API call returned.
type Snap struct {
	Op       int // index of the op (len(Ops) = Close)
	What     string
	OutLen   int
	Issued   int // model bytes whose Write calls had been issued
	MustHave int // model bytes that must be durable at this point (-1: no claim)
}

// CallRes is the result of one API call.
type CallRes struct {
	What    string
	Err     string // "" = nil
	Faulted bool   // the underlying writer had already returned its fault when the call began
}

// Outcome is what running a script produced.
type Outcome struct {
	Model     []byte
	Out       []byte
	Cuts      []int // delivered length after each underlying Write returned
	CutIssued []int // model bytes issued when that underlying Write returned
	Snaps     []Snap
	CloseErr  error
	Closed    bool
	Errs      []string  // unexpected API errors / wrong return values
	APIErrs   []string  // every error an API call returned (expected when a fault is planned)
	Faulted   bool      // the underlying writer delivered its fault
	ErrAfter  int       // index of the first op that reported an error (-1 none)
	Calls     []CallRes // every API call in order
	Overflow  bool      // a member did not fit into 64 KiB (ErrBlockOverflow)
	Hung      string    // non-empty: the call that did not return
}

type issuedWriter struct {
	*RecWriter
	issued    *int64
	cutIssued []int
}

func (w *issuedWriter) Write(p []byte) (int, error) {
	n, err := w.RecWriter.Write(p)
	if err == nil {
		w.mu.Lock()
		w.cutIssued = append(w.cutIssued, int(atomic.LoadInt64(w.issued)))
		w.mu.Unlock()
	}
	return n, err
}

// ApplyHdr sets the header fields on w.
func ApplyHdr(w *bgzf.Writer, hd *Hdr) {
	if hd == nil {
		return
	}
	w.Name = hd.Name
	w.Comment = hd.Comment
	var ex []byte
	for _, s := range hd.Extra {
		ex = append(ex, s.ID[0], s.ID[1], byte(len(s.Data)), byte(len(s.Data)>>8))
		ex = append(ex, s.Data...)
	}
	w.Extra = ex
	if hd.OS >= 0 {
		w.OS = byte(hd.OS)
	}
	if hd.MTime != 0 {
		w.ModTime = time.Unix(hd.MTime, 0)
	}
}

// Run executes the script against a bgzf.Writer. callTimeout bounds every API call.
func (s Script) Run(callTimeout time.Duration) *Outcome {
	o := &Outcome{}
	var issued int64
	rw := NewRecWriter()
	rw.Delays = s.Delays
	if s.Fault != nil {
		rw.Fault = *s.Fault
	}
	o.ErrAfter = -1
	iw := &issuedWriter{RecWriter: rw, issued: &issued}
	w, err := bgzf.NewWriterLevel(iw, s.Level, s.WC)
	if err != nil {
		o.Errs = append(o.Errs, fmt.Sprintf("NewWriterLevel(level=%d, wc=%d): %v", s.Level, s.WC, err))
		return o
	}
	ApplyHdr(w, s.Hdr)
	bad := func(format string, a ...any) { o.Errs = append(o.Errs, fmt.Sprintf(format, a...)) }
	chk := func(what string, err error) {
		cr := CallRes{What: what}
		if err != nil {
			cr.Err = err.Error()
		}
		if what != "Next" {
			o.Calls = append(o.Calls, cr)
		}
		if err == nil {
			return
		}
		if err == bgzf.ErrBlockOverflow {
			o.Overflow = true
			return
		}
		o.APIErrs = append(o.APIErrs, fmt.Sprintf("%s returned %v", what, err))
		if s.Fault != nil && s.Fault.K >= 0 {
			return
		}
		bad("%s returned %v", what, err)
	}
	call := func(what string, f func()) bool {
		done := make(chan struct{})
		go func() { defer close(done); f() }()
		if h.Await(done, callTimeout, "github.com/biogo/hts") {
			return true
		}
		o.Hung = what
		return false
	}
	flushMark := -1
	snap := func(i int, what string, must int) {
		o.Snaps = append(o.Snaps, Snap{Op: i, What: what, OutLen: rw.Len(), Issued: int(atomic.LoadInt64(&issued)), MustHave: must})
	}
	finish := func() *Outcome {
		o.Faulted = rw.Failed()
		o.Out = rw.Bytes()
		rw.mu.Lock()
		o.Cuts = append([]int(nil), rw.Cuts...)
		o.CutIssued = append([]int(nil), iw.cutIssued...)
		rw.mu.Unlock()
		return o
	}
	for i, op := range s.Ops {
		switch op.K {
		case "write", "fill":
			p := op.P
			if op.K == "fill" {
				next, err := w.Next()
				if err != nil {
					chk("Next", err)
					next = 0
				}
				p.Len = BlockSize - next + op.Delta
				if p.Len < 0 {
					p.Len = 0
				}
			}
			b := p.Bytes()
			o.Model = append(o.Model, b...)
			atomic.AddInt64(&issued, int64(len(b)))
			var n int
			var err error
			if !call(fmt.Sprintf("op %d Write(%d bytes)", i, len(b)), func() { n, err = w.Write(b) }) {
				return finish()
			}
			// the slice belongs to the caller again (io.Writer: "Write must not
			// modify the slice data ... Implementations must not retain p")
			for k := range b {
				b[k] ^= 0xa5
			}
			chk(fmt.Sprintf("op %d Write(%d bytes)", i, len(b)), err)
			if err == nil && n != len(b) {
				bad("op %d Write(%d bytes) returned n=%d", i, len(b), n)
			}
			snap(i, "write", -1)
		case "flush":
			var err error
			if !call(fmt.Sprintf("op %d Flush", i), func() { err = w.Flush() }) {
				return finish()
			}
			chk(fmt.Sprintf("op %d Flush", i), err)
			if err == nil {
				flushMark = int(atomic.LoadInt64(&issued))
			}
			snap(i, "flush", -1)
		case "wait":
			var err error
			if !call(fmt.Sprintf("op %d Wait", i), func() { err = w.Wait() }) {
				return finish()
			}
			chk(fmt.Sprintf("op %d Wait", i), err)
			must := -1
			if err == nil {
				must = flushMark
			}
			snap(i, "wait", must)
		}
	}
	if s.NoClose {
		var e1, e2 error
		if !call("final Flush", func() { e1 = w.Flush() }) {
			return finish()
		}
		chk("final Flush", e1)
		if !call("final Wait", func() { e2 = w.Wait() }) {
			return finish()
		}
		chk("final Wait", e2)
		must := -1
		if e1 == nil && e2 == nil {
			must = len(o.Model)
		}
		snap(len(s.Ops), "flush+wait", must)
		res := finish()
		// the observation is complete; close the writer so that its goroutines
		// and buffers do not pile up over a long run (the sink forgets the rest)
		rw.Mute()
		call("cleanup Close", func() { w.Close() })
		res.Hung = ""
		return res
	}
	var cerr error
	if !call("Close", func() { cerr = w.Close() }) {
		return finish()
	}
	o.Closed = true
	o.CloseErr = cerr
	chk("Close", cerr)
	must := -1
	if cerr == nil {
		must = len(o.Model)
	}
	snap(len(s.Ops), "close", must)
	// a second Close must be harmless and report the same state
	var cerr2 error
	if !call("second Close", func() { cerr2 = w.Close() }) {
		return finish()
	}
	if (cerr2 == nil) != (cerr == nil) {
		bad("second Close returned %v after the first returned %v", cerr2, cerr)
	}
	return finish()
}

// ---- generators ----

var lenChoices = []int{0, 1, 2, 3, 100, 4095, 4096, BlockSize - 1, BlockSize, BlockSize + 1, 2*BlockSize - 1, 2 * BlockSize, 2*BlockSize + 1, 65535, 65536, 65537}

// PayGen draws a payload description.
func PayGen(maxBlocks int) *rapid.Generator[Pay] {
	return rapid.Custom(func(t *rapid.T) Pay {
		p := Pay{Kind: rapid.IntRange(0, 3).Draw(t, "kind"), Seed: uint64(rapid.IntRange(0, 1<<20).Draw(t, "seed"))}
		switch rapid.IntRange(0, 3).Draw(t, "lk") {
		case 0:
			p.Len = rapid.IntRange(0, 300).Draw(t, "small")
		case 1, 2:
			p.Len = rapid.SampledFrom(lenChoices).Draw(t, "edge")
		default:
			p.Len = rapid.IntRange(0, maxBlocks*BlockSize).Draw(t, "any")
		}
		if p.Len > maxBlocks*BlockSize {
			p.Len = maxBlocks * BlockSize
		}
		return p
	})
}

// WOpGen draws one writer operation.
func WOpGen(maxBlocks int) *rapid.Generator[WOp] {
	return rapid.Custom(func(t *rapid.T) WOp {
		switch rapid.SampledFrom([]string{"write", "write", "write", "fill", "fill", "flush", "wait"}).Draw(t, "op") {
		case "write":
			return WOp{K: "write", P: PayGen(maxBlocks).Draw(t, "p")}
		case "fill":
			return WOp{K: "fill", P: Pay{Kind: rapid.IntRange(0, 3).Draw(t, "kind"), Seed: uint64(rapid.IntRange(0, 1<<20).Draw(t, "seed"))},
				Delta: rapid.SampledFrom([]int{-1, 0, 0, 1}).Draw(t, "delta")}
		case "flush":
			return WOp{K: "flush"}
		}
		return WOp{K: "wait"}
	})
}

// ScriptGen draws a writer script without header settings.
func ScriptGen(maxOps, maxBlocks int) *rapid.Generator[Script] {
	return rapid.Custom(func(t *rapid.T) Script {
		s := Script{
			Level: rapid.IntRange(-1, 9).Draw(t, "level"),
			WC:    rapid.SampledFrom([]int{0, 1, 2, 3, 4, 8, 17}).Draw(t, "wc"),
		}
		s.Ops = rapid.SliceOfN(WOpGen(maxBlocks), 0, maxOps).Draw(t, "ops")
		if rapid.Bool().Draw(t, "delays") {
			s.Delays = rapid.SliceOfN(rapid.SampledFrom([]int{0, 0, 20, 100, 400}), 1, 4).Draw(t, "delayv")
		}
		return s
	})
}

// Stats summarises a script for classification.
type Stats struct {
	ExactFill, Overflowing, Spanning, FlushOnEmpty, IncompressibleFull bool
	DataMembers                                                        int
}

// Classify replays the block arithmetic of a script (content-free) to label it.
func (s Script) Classify(members []Member) Stats {
	var st Stats
	next := 0
	for _, op := range s.Ops {
		switch op.K {
		case "write", "fill":
			n := op.P.Len
			if op.K == "fill" {
				n = BlockSize - next + op.Delta
				if n < 0 {
					n = 0
				}
			}
			if n == 0 {
				continue
			}
			switch {
			case next+n == BlockSize:
				st.ExactFill = true
			case next+n > BlockSize && n <= BlockSize:
				st.Overflowing = true
			case n > BlockSize:
				st.Spanning = true
			}
			if op.P.Kind == 2 && n >= BlockSize {
				st.IncompressibleFull = true
			}
			// advance the model of the active block
			if next != 0 && next+n > BlockSize {
				next = 0
			}
			next = (next + n) % BlockSize
		case "flush":
			if next == 0 {
				st.FlushOnEmpty = true
			}
			next = 0
		}
	}
	for _, m := range members {
		if len(m.Data) > 0 {
			st.DataMembers++
		}
	}
	return st
}
