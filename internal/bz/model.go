package bz

import (
	"bytes"
	"fmt"
	"io"
	"time"

	"github.com/biogo/hts/bgzf"
	"pgregory.net/rapid"
)

// ROp is one reader operation. Member and offset arguments are reduced
// modulo the file's shape at run time so that histories stay valid under
// shrinking.
type ROp struct {
	K string // seek read byte blocked unblocked replay (+ property specific kinds handled by the hook)
	M int    // seek: member index (mod number of members)
	O int    // seek: in-block offset (mod len+1)
	N int    // read: buffer size; byte: number of ReadByte calls; replay: buffer size
	A int    // property specific argument
}

// RModel is the reference model of a bgzf.Reader over a File: a position
// (member k, offset o) plus the sticky end-of-data flag.
type RModel struct {
	F       *File
	K, O    int
	Ended   bool
	Blocked bool
}

// skip moves over exhausted and empty members; false at the end of data.
func (m *RModel) skip() bool {
	for m.K < len(m.F.Members) && m.O >= m.F.Members[m.K].Len {
		m.K++
		m.O = 0
	}
	return m.K < len(m.F.Members)
}

func (m *RModel) logical() int {
	if m.K >= len(m.F.Members) {
		return len(m.F.Flat)
	}
	return m.F.Members[m.K].Start + m.O
}

// Read returns what Read(make([]byte,n)) must deliver: the bytes, whether
// io.EOF accompanies them, and the logical positions before and after.
func (m *RModel) Read(n int) (data []byte, eof bool, begin, end int) {
	if m.Ended {
		return nil, true, -1, -1
	}
	if !m.skip() {
		m.Ended = true
		return nil, true, -1, -1
	}
	begin = m.logical()
	for len(data) < n {
		mem := m.F.Members[m.K]
		take := mem.Len - m.O
		if take > n-len(data) {
			take = n - len(data)
		}
		data = append(data, m.F.Flat[mem.Start+m.O:mem.Start+m.O+take]...)
		m.O += take
		if len(data) == n {
			break
		}
		// block exhausted with room left in the buffer
		if m.Blocked {
			return data, true, begin, begin + len(data)
		}
		m.K++
		m.O = 0
		if m.K >= len(m.F.Members) {
			m.Ended = true
			return data, true, begin, begin + len(data)
		}
	}
	return data, false, begin, begin + len(data)
}

// ReadByte returns the next byte; ok=false means (0, io.EOF).
func (m *RModel) NextByte() (b byte, ok bool, begin int) {
	if m.Ended {
		return 0, false, -1
	}
	if !m.skip() {
		m.Ended = true
		return 0, false, -1
	}
	begin = m.logical()
	mem := m.F.Members[m.K]
	b = m.F.Flat[mem.Start+m.O]
	m.O++
	return b, true, begin
}

// Seek positions the model at member k, offset o.
func (m *RModel) Seek(k, o int) {
	m.K, m.O, m.Ended = k, o, false
}

// BlockLen is the number of bytes left in the current block.
func (m *RModel) BlockLen() int {
	if m.K >= len(m.F.Members) {
		return 0
	}
	return m.F.Members[m.K].Len - m.O
}

// Stats collected while running a history.
type RStats struct {
	Seeks, CrossReads, AfterEnd, Replays, BlockedEOF int
	SeekThenCross                                    bool
	WantTrace                                        bool
	Trace                                            []string // LastChunk/BlockLen after every op
}

// Hook lets a property act on its own op kinds; it returns a violation message.
type Hook func(i int, op ROp, r *bgzf.Reader) string

// RunHistory executes ops on r and on the model and returns the first
// disagreement ("" if none). cur, if non-nil, receives a label of the call in
// flight (for watchdogs).
func RunHistory(r *bgzf.Reader, f *File, ops []ROp, hook Hook, cur func(string), st *RStats) string {
	m := &RModel{F: f}
	m.Blocked = r.Blocked
	note := func(s string) {
		if cur != nil {
			cur(s)
		}
	}
	var lastBegin bgzf.Offset
	var lastData []byte
	haveLast := false
	sawSeek := false
	buf := make([]byte, 0, 1<<17)
	checkChunk := func(what string, begin, end int) string {
		lc := r.LastChunk()
		b, ok := f.Logical(lc.Begin.File, int(lc.Begin.Block))
		if !ok {
			return fmt.Sprintf("%s: LastChunk().Begin=%+v is not a block start plus an offset within that block", what, lc.Begin)
		}
		e, ok := f.Logical(lc.End.File, int(lc.End.Block))
		if !ok {
			return fmt.Sprintf("%s: LastChunk().End=%+v is not a block start plus an offset within that block", what, lc.End)
		}
		if b != begin || e != end {
			return fmt.Sprintf("%s: LastChunk()=%+v translates to logical [%d,%d), the bytes returned are [%d,%d)", what, lc, b, e, begin, end)
		}
		return ""
	}
	doRead := func(what string, n int) string {
		note(what)
		if cap(buf) < n {
			buf = make([]byte, n)
		}
		p := buf[:n]
		startK := m.K
		wasEnded := m.Ended
		want, eof, begin, end := m.Read(n)
		got, err := r.Read(p)
		if got != len(want) || !bytes.Equal(p[:got], want) {
			return fmt.Sprintf("%s returned %d bytes (err %v), model %d bytes (eof %v) at logical %d; first difference at +%d", what, got, err, len(want), eof, begin, firstDiff(p[:got], want))
		}
		switch {
		case eof && err != io.EOF:
			return fmt.Sprintf("%s returned err=%v with %d bytes, model expects io.EOF", what, err, got)
		case !eof && err != nil:
			if n == 0 && err == io.EOF {
				break
			}
			return fmt.Sprintf("%s returned err=%v with %d bytes, model expects nil", what, err, got)
		}
		if wasEnded && st != nil {
			st.AfterEnd++
		}
		if got > 0 {
			if msg := checkChunk(what, begin, end); msg != "" {
				return msg
			}
			lastBegin, lastData, haveLast = r.LastChunk().Begin, append(lastData[:0], p[:got]...), true
			if st != nil && m.K != startK && end-begin > 0 {
				st.CrossReads++
				if sawSeek {
					st.SeekThenCross = true
				}
			}
			if eof && m.Blocked && !m.Ended && st != nil {
				st.BlockedEOF++
			}
		}
		if !m.Ended && n > 0 {
			if bl := r.BlockLen(); bl != m.BlockLen() {
				return fmt.Sprintf("after %s: BlockLen()=%d, model %d", what, bl, m.BlockLen())
			}
		}
		return ""
	}
	for i, op := range ops {
		if st != nil && st.WantTrace && i > 0 {
			st.Trace = append(st.Trace, fmt.Sprintf("%+v %d", r.LastChunk(), r.BlockLen()))
		}
		switch op.K {
		case "blocked":
			r.Blocked, m.Blocked = true, true
		case "unblocked":
			r.Blocked, m.Blocked = false, false
		case "settle":
			// let read-ahead workers reach their steady state (queue filled, parked)
			time.Sleep(time.Duration(1+op.N%4) * time.Millisecond)
		case "seekend":
			// Seek to the end of the file, where no member starts. The outcome is
			// not modelled; it is recorded so that two runs of the same history can
			// be compared, and the reader is brought back with a Seek to the start.
			what := fmt.Sprintf("op %d Seek(end of file)", i)
			note(what)
			err := r.Seek(bgzf.Offset{File: int64(len(f.Bytes))})
			if st != nil && st.WantTrace {
				st.Trace = append(st.Trace, fmt.Sprintf("seek to the end of the file: %v", err))
			}
			what = fmt.Sprintf("op %d Seek(start) after Seek(end of file)", i)
			note(what)
			off := bgzf.Offset{File: f.Members[0].Base}
			if err := r.Seek(off); err != nil {
				return fmt.Sprintf("%s: %v", what, err)
			}
			m.Seek(0, 0)
			haveLast = false
		case "seek":
			k := op.M % len(f.Members)
			o := op.O % (f.Members[k].Len + 1)
			off := bgzf.Offset{File: f.Members[k].Base, Block: uint16(o)}
			what := fmt.Sprintf("op %d Seek(%+v)", i, off)
			note(what)
			if err := r.Seek(off); err != nil {
				return fmt.Sprintf("%s (block %d of %d, offset %d of %d): %v", what, k, len(f.Members), o, f.Members[k].Len, err)
			}
			m.Seek(k, o)
			sawSeek = true
			if st != nil {
				st.Seeks++
			}
			if lc := r.LastChunk(); lc.Begin != off || lc.End != off {
				return fmt.Sprintf("after %s: LastChunk()=%+v, want Begin=End=the seek offset", what, lc)
			}
			if bl := r.BlockLen(); bl != m.BlockLen() {
				return fmt.Sprintf("after %s: BlockLen()=%d, model %d", what, bl, m.BlockLen())
			}
			haveLast = false
		case "read":
			if msg := doRead(fmt.Sprintf("op %d Read(%d)", i, op.N), op.N); msg != "" {
				return msg
			}
		case "byte":
			for j := 0; j < op.N; j++ {
				what := fmt.Sprintf("op %d ReadByte #%d", i, j)
				note(what)
				wasEnded := m.Ended
				want, ok, begin := m.NextByte()
				b, err := r.ReadByte()
				if !ok {
					if err != io.EOF {
						return fmt.Sprintf("%s returned (%#x,%v) at the end of the data", what, b, err)
					}
					if wasEnded && st != nil {
						st.AfterEnd++
					}
					break
				}
				if err != nil || b != want {
					return fmt.Sprintf("%s returned (%#x,%v), model %#x at logical %d", what, b, err, want, begin)
				}
				if msg := checkChunk(what, begin, begin+1); msg != "" {
					return msg
				}
				lastBegin, lastData, haveLast = r.LastChunk().Begin, append(lastData[:0], b), true
			}
		case "replay":
			// seeking to a reported Begin replays the same bytes
			if !haveLast {
				continue
			}
			what := fmt.Sprintf("op %d Seek(LastChunk().Begin=%+v)", i, lastBegin)
			note(what)
			if err := r.Seek(lastBegin); err != nil {
				return fmt.Sprintf("%s: %v", what, err)
			}
			k := -1
			for j, mem := range f.Members {
				if mem.Base == lastBegin.File {
					k = j
				}
			}
			if k < 0 {
				return fmt.Sprintf("%s: not a block start", what)
			}
			m.Seek(k, int(lastBegin.Block))
			prev := append([]byte(nil), lastData...)
			if msg := doRead(fmt.Sprintf("op %d replay Read(%d)", i, len(prev)), len(prev)); msg != "" {
				return msg
			}
			if !bytes.Equal(lastData, prev) && !m.Blocked {
				return fmt.Sprintf("%s then Read(%d) returned different bytes than the read that reported it", what, len(prev))
			}
			sawSeek = true
			if st != nil {
				st.Replays++
			}
		default:
			if hook != nil {
				note(fmt.Sprintf("op %d %s", i, op.K))
				if msg := hook(i, op, r); msg != "" {
					return msg
				}
			}
		}
	}
	if st != nil && st.WantTrace {
		st.Trace = append(st.Trace, fmt.Sprintf("%+v %d", r.LastChunk(), r.BlockLen()))
	}
	return ""
}

func firstDiff(a, b []byte) int {
	for i := range a {
		if i >= len(b) || a[i] != b[i] {
			return i
		}
	}
	return len(a)
}

// FSpec describes a generated BGZF file compactly.
type FSpec struct {
	Sizes  []int  // payload size of each member (0 = empty member)
	Seed   uint64 // content seed
	Marker bool   // append the EOF marker
	ViaLib bool   // build with bgzf.Writer (concatenated closed streams) instead of the harness encoder
	Level  int
}

// Build materialises the file.
func (s FSpec) Build() (*File, error) {
	var pays [][]byte
	for i, n := range s.Sizes {
		p := Pay{Kind: 1 + i%3, Seed: s.Seed + uint64(i)*977, Len: n}
		pays = append(pays, p.Bytes())
	}
	if !s.ViaLib {
		return BuildFile(pays, s.Level, s.Marker), nil
	}
	// library writer: one closed stream per run of non-empty payloads; an
	// empty payload closes the current stream (its EOF marker becomes a
	// mid-file empty block).
	var out bytes.Buffer
	var w *bgzf.Writer
	open := func() error {
		var err error
		w, err = bgzf.NewWriterLevel(&out, s.Level, 1)
		return err
	}
	if err := open(); err != nil {
		return nil, err
	}
	for _, p := range pays {
		if len(p) == 0 {
			if err := w.Close(); err != nil {
				return nil, err
			}
			if err := open(); err != nil {
				return nil, err
			}
			continue
		}
		if _, err := w.Write(p); err != nil {
			return nil, err
		}
		if err := w.Flush(); err != nil {
			return nil, err
		}
	}
	if err := w.Close(); err != nil {
		return nil, err
	}
	b := out.Bytes()
	if !s.Marker {
		// the writer can only be shut down by Close: drop the final marker
		b = b[:len(b)-len(EOFMarker)]
	}
	return FileFromBytes(b)
}

// FSpecGen draws a small multi-member file.
func FSpecGen(maxMembers int) *rapid.Generator[FSpec] {
	return rapid.Custom(func(t *rapid.T) FSpec {
		sizes := rapid.SliceOfN(rapid.Custom(func(t *rapid.T) int {
			switch rapid.IntRange(0, 9).Draw(t, "sk") {
			case 0, 1:
				return 0
			case 2:
				return rapid.SampledFrom([]int{BlockSize, BlockSize - 1, 4096, 300}).Draw(t, "big")
			}
			return rapid.IntRange(1, 64).Draw(t, "small")
		}), 1, maxMembers).Draw(t, "sizes")
		return FSpec{
			Sizes:  sizes,
			Seed:   uint64(rapid.IntRange(0, 1<<16).Draw(t, "seed")),
			Marker: rapid.IntRange(0, 3).Draw(t, "marker") != 0,
			ViaLib: rapid.IntRange(0, 3).Draw(t, "vialib") == 0,
			Level:  rapid.SampledFrom([]int{-1, 0, 1, 6, 9}).Draw(t, "level"),
		}
	})
}

// ROpGen draws one reader operation.
func ROpGen() *rapid.Generator[ROp] {
	return rapid.Custom(func(t *rapid.T) ROp {
		k := rapid.SampledFrom([]string{"seek", "seek", "seek", "read", "read", "read", "read", "byte", "byte", "blocked", "unblocked", "replay"}).Draw(t, "k")
		op := ROp{K: k}
		switch k {
		case "seek":
			op.M = rapid.IntRange(0, 12).Draw(t, "m")
			op.O = rapid.IntRange(0, 70).Draw(t, "o")
			if rapid.IntRange(0, 3).Draw(t, "edge") == 0 {
				op.O = rapid.SampledFrom([]int{0, 1 << 20}).Draw(t, "oe") // 0 or (after the modulo) somewhere deep in a large block
			}
		case "read":
			op.N = rapid.SampledFrom([]int{0, 1, 2, 3, 5, 8, 17, 40, 64, 65, 200, 5000, 70000}).Draw(t, "n")
		case "byte":
			op.N = rapid.IntRange(1, 70).Draw(t, "n")
		}
		return op
	})
}
