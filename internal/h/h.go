// Package h is the harness shared by all property packages: it turns a
// (draw, run) pair into a rapid property, keeps per-shard statistics
// (evaluations, distinct non-trivial fingerprints, class histogram, samples),
// saves the shrunk failing case as a replay file, replays such files without
// rapid, and guards calls with a watchdog.
package h

import (
	"encoding/binary"
	"encoding/json"
	"flag"
	"fmt"
	"hash/fnv"
	"os"
	"path/filepath"
	"runtime"
	"runtime/debug"
	"sort"
	"strconv"
	"strings"
	"sync"
	"testing"
	"time"

	"pgregory.net/rapid"
)

// Rec collects the outcome of one case.
type Rec struct {
	nt      bool
	classes []string
	viol    string
	skip    string
	extra   uint64 // additional evaluations carried out inside the case (e.g. enumerated fault points)
	extraNT uint64 // how many of those were non-trivial (distinct within the case by construction)
}

// AddEvals records evaluations enumerated inside one case, nt of which are
// non-trivial; they count as distinct when the case itself is distinct.
func (r *Rec) AddEvals(n, nt uint64) {
	r.extra += n
	r.extraNT += nt
}

// NT marks the case as non-trivial by the property's stated rule.
func (r *Rec) NT() { r.nt = true }

// NTIf marks the case non-trivial when c holds.
func (r *Rec) NTIf(c bool) {
	if c {
		r.nt = true
	}
}

// Class adds the case to a histogram class.
func (r *Rec) Class(s string) { r.classes = append(r.classes, s) }

// ClassIf adds the class when c holds.
func (r *Rec) ClassIf(c bool, s string) {
	if c {
		r.classes = append(r.classes, s)
	}
}

// Failf records a violation (the first one wins).
func (r *Rec) Failf(format string, a ...any) {
	if r.viol == "" {
		r.viol = fmt.Sprintf(format, a...)
	}
}

// Skip marks the case as outside the judged domain, with a counted reason.
func (r *Rec) Skip(reason string) {
	if r.skip == "" {
		r.skip = reason
	}
}

// Merge copies the outcome of o into r.
func (r *Rec) Merge(o *Rec) {
	r.nt = r.nt || o.nt
	r.extra += o.extra
	r.extraNT += o.extraNT
	r.classes = append(r.classes, o.classes...)
	if r.viol == "" {
		r.viol = o.viol
	}
	if r.skip == "" {
		r.skip = o.skip
	}
}

func (r *Rec) Failed() bool  { return r.viol != "" }
func (r *Rec) Msg() string   { return r.viol }
func (r *Rec) Skipped() bool { return r.skip != "" }

// Ctx is what an enumeration-style sub-check receives.
type Ctx struct {
	Prop    string
	Sub     string
	Tier    string // "quick" or "thorough"
	Seed    uint64
	Shard   int
	NShards int
	T       *testing.T
	st      *subStats
	failed  bool
}

func (c *Ctx) Thorough() bool { return c.Tier == "thorough" }

// Pick returns q in the quick tier and t in the thorough tier.
func (c *Ctx) Pick(q, t int) int {
	if c.Thorough() {
		return t
	}
	return q
}

// Mine reports whether work item i belongs to this shard.
func (c *Ctx) Mine(i int) bool { return i%c.NShards == c.Shard }

// Bulk records evals evaluations of which nt are distinct and non-trivial by
// construction (an enumeration visits each point once over all shards).
func (c *Ctx) Bulk(evals, nt uint64) {
	c.st.Evals += evals
	c.st.BulkNT += nt
}

// Class bumps a histogram class by n.
func (c *Ctx) Class(s string, n uint64) { c.st.Classes[s] += n }

// Sample stores a sample case (bounded).
func (c *Ctx) Sample(v any) { c.st.sample(v, false) }

// Case records one individually judged case; it returns false after a
// violation (the enumeration should stop).
func (c *Ctx) Case(v any, rec *Rec) bool {
	c.st.record(v, rec)
	if rec.viol != "" {
		c.Violation(v, rec.viol)
		return false
	}
	return true
}

// Violation saves the case as a replay file and fails the sub-check.
func (c *Ctx) Violation(v any, msg string) {
	p := saveReplay(c.Prop, c.Sub, c.Shard, v, msg)
	c.st.Violations = append(c.st.Violations, violation{Replay: p, Msg: trunc(msg, 2000)})
	c.failed = true
	c.T.Errorf("violation: %s", msg)
}

func (c *Ctx) Failed() bool { return c.failed }

// Sub is one sub-check of a property.
type Sub struct {
	Name   string
	gen    func(ctx *Ctx)
	replay func(raw json.RawMessage, rec *Rec) error
}

type violation struct {
	Replay string `json:"replay"`
	Msg    string `json:"msg"`
}

type subStats struct {
	Evals      uint64            `json:"evals"`
	BulkNT     uint64            `json:"bulk_nt"`
	NTSeen     uint64            `json:"nt_seen"`
	Classes    map[string]uint64 `json:"classes"`
	Skips      map[string]uint64 `json:"skips"`
	Samples    []json.RawMessage `json:"samples"`
	NTSamples  []json.RawMessage `json:"nt_samples"`
	Violations []violation       `json:"violations"`
	Requested  int               `json:"requested"`
	Exhaustive bool              `json:"exhaustive"`
	WallS      float64           `json:"wall_s"`
	fps        map[uint64]struct{}
	caseSeen   map[uint64]struct{}
}

func newSubStats() *subStats {
	return &subStats{Classes: map[string]uint64{}, Skips: map[string]uint64{}, fps: map[uint64]struct{}{}, caseSeen: map[uint64]struct{}{}}
}

const maxSamples = 3

func trunc(s string, n int) string {
	if len(s) > n {
		return s[:n] + "…"
	}
	return s
}

func (s *subStats) sample(v any, nt bool) {
	dst := &s.Samples
	if nt {
		dst = &s.NTSamples
	}
	if len(*dst) >= maxSamples {
		return
	}
	b, err := json.Marshal(v)
	if err != nil {
		return
	}
	if len(b) > 3000 {
		b, _ = json.Marshal(map[string]any{"truncated_case_json": string(b[:3000])})
	}
	*dst = append(*dst, b)
}

func (s *subStats) record(v any, rec *Rec) {
	s.Evals++
	s.Evals += rec.extra
	if rec.skip != "" {
		s.Skips[rec.skip]++
		return
	}
	if rec.extraNT > 0 {
		if b, err := json.Marshal(v); err == nil {
			f := fnv.New64a()
			f.Write(b)
			k := f.Sum64() ^ 0x5bd1e995
			if _, seen := s.caseSeen[k]; !seen {
				s.caseSeen[k] = struct{}{}
				s.BulkNT += rec.extraNT
			}
		}
	}
	for _, c := range rec.classes {
		s.Classes[c]++
	}
	if len(s.Samples) < maxSamples {
		s.sample(v, false)
	}
	if rec.nt {
		s.NTSeen++
		b, err := json.Marshal(v)
		if err == nil {
			f := fnv.New64a()
			f.Write(b)
			s.fps[f.Sum64()] = struct{}{}
		}
		if len(s.NTSamples) < maxSamples {
			s.sample(v, true)
		}
	}
}

// Env.
var (
	Root    = envOr("VERIF_ROOT", "/verif")
	outDir  = os.Getenv("VERIF_OUT")
	tier    = envOr("VERIF_TIER", "quick")
	only    = os.Getenv("VERIF_ONLY")
	scale   = envFloat("VERIF_SCALE", 1)
	seedEnv = envUint("VERIF_SEED", 1)
	shard   = int(envUint("VERIF_SHARD", 0))
	nshards = int(envUint("VERIF_NSHARDS", 1))
)

func envOr(k, d string) string {
	if v := os.Getenv(k); v != "" {
		return v
	}
	return d
}
func envUint(k string, d uint64) uint64 {
	if v := os.Getenv(k); v != "" {
		n, err := strconv.ParseUint(v, 0, 64)
		if err == nil {
			return n
		}
		// negative or odd seeds: hash the text
		f := fnv.New64a()
		f.Write([]byte(v))
		return f.Sum64()
	}
	return d
}
func envFloat(k string, d float64) float64 {
	if v := os.Getenv(k); v != "" {
		if f, err := strconv.ParseFloat(v, 64); err == nil && f > 0 {
			return f
		}
	}
	return d
}

// Tier returns the current tier name.
func Tier() string { return tier }

// Mix derives a non-zero 64-bit value from the run seed and labels.
func Mix(parts ...any) uint64 {
	f := fnv.New64a()
	fmt.Fprint(f, seedEnv)
	for _, p := range parts {
		fmt.Fprint(f, "|", p)
	}
	v := f.Sum64()
	if v == 0 {
		v = 0x9e3779b97f4a7c15
	}
	return v
}

var curCase struct {
	sync.Mutex
	f *os.File
}

func writeCurrent(prop, sub string, v any) {
	if outDir == "" {
		return
	}
	curCase.Lock()
	defer curCase.Unlock()
	if curCase.f == nil {
		f, err := os.Create(filepath.Join(outDir, fmt.Sprintf("cur_%d.json", shard)))
		if err != nil {
			return
		}
		curCase.f = f
	}
	b, err := json.Marshal(replayFile{Property: prop, Sub: sub, Case: mustJSON(v), Message: "process died while running this case"})
	if err != nil {
		return
	}
	curCase.f.Truncate(0)
	curCase.f.WriteAt(b, 0)
}

func clearCurrent() {
	curCase.Lock()
	defer curCase.Unlock()
	if curCase.f != nil {
		curCase.f.Truncate(0)
	}
}

func mustJSON(v any) json.RawMessage {
	b, err := json.Marshal(v)
	if err != nil {
		b, _ = json.Marshal(fmt.Sprintf("unserialisable case: %v", err))
	}
	return b
}

type replayFile struct {
	Property string          `json:"property"`
	Sub      string          `json:"sub"`
	Case     json.RawMessage `json:"case"`
	Message  string          `json:"message"`
}

func saveReplay(prop, sub string, shard int, v any, msg string) string {
	dir := filepath.Join(Root, "replays", "new")
	if d := os.Getenv("VERIF_NEWDIR"); d != "" {
		dir = d
	}
	os.MkdirAll(dir, 0o755)
	p := filepath.Join(dir, fmt.Sprintf("%s-%s-s%d-%d.json", prop, sub, seedEnv, shard))
	b, _ := json.MarshalIndent(replayFile{Property: prop, Sub: sub, Case: mustJSON(v), Message: trunc(msg, 4000)}, "", " ")
	os.WriteFile(p, b, 0o644)
	return p
}

// Opt configures a rapid sub-check.
type Opt struct {
	Quick, Thorough int  // rapid checks per run (split over shards)
	Isolate         bool // write the current case before running it (process-killing failures)
	Steps           int  // rapid.steps (0 = default)
}

// Safe runs f, converting a panic into a violation on rec.
func Safe(rec *Rec, what string, f func()) {
	defer func() {
		if e := recover(); e != nil {
			rec.Failf("panic in %s: %v\n%s", what, e, shortStack())
		}
	}()
	f()
}

func shortStack() string {
	st := string(debug.Stack())
	lines := strings.Split(st, "\n")
	var out []string
	for i := 0; i < len(lines) && len(out) < 24; i++ {
		l := lines[i]
		if strings.Contains(l, "runtime/debug") || strings.Contains(l, "internal/h.") || strings.Contains(l, "/internal/h/") {
			continue
		}
		out = append(out, l)
	}
	return strings.Join(out, "\n")
}

// Rapid builds a sub-check from a case generator and a runner. C must be
// JSON-serialisable; run must be a pure function of the case and the tree.
func Rapid[C any](name string, o Opt, draw func(*rapid.T) C, run func(C, *Rec)) Sub {
	runSafe := func(c C, rec *Rec) {
		Safe(rec, "property body", func() { run(c, rec) })
	}
	return Sub{
		Name: name,
		gen: func(ctx *Ctx) {
			n := o.Quick
			if ctx.Thorough() {
				n = o.Thorough
			}
			n = int(float64(n) * scale)
			per := (n + ctx.NShards - 1) / ctx.NShards
			if per < 1 {
				per = 1
			}
			ctx.st.Requested = per
			flag.Set("rapid.checks", strconv.Itoa(per))
			flag.Set("rapid.seed", strconv.FormatUint(Mix(ctx.Prop, name, ctx.Shard)|1, 10))
			flag.Set("rapid.nofailfile", "true")
			if o.Steps > 0 {
				flag.Set("rapid.steps", strconv.Itoa(o.Steps))
			}
			if ctx.Thorough() {
				flag.Set("rapid.shrinktime", "60s")
			} else {
				flag.Set("rapid.shrinktime", "20s")
			}
			failing := false
			var lastFail *C
			var lastMsg string
			ok := ctx.T.Run("rapid", func(t *testing.T) {
				rapid.Check(t, func(rt *rapid.T) {
					c := draw(rt)
					rec := &Rec{}
					if o.Isolate {
						writeCurrent(ctx.Prop, name, c)
					}
					runSafe(c, rec)
					if !failing {
						ctx.st.record(c, rec)
					}
					if rec.viol != "" {
						failing = true
						cc := c
						lastFail, lastMsg = &cc, rec.viol
						rt.Fatalf("%s", trunc(rec.viol, 1500))
					}
				})
			})
			if o.Isolate {
				clearCurrent()
			}
			if !ok {
				ctx.failed = true
				if lastFail != nil {
					p := saveReplay(ctx.Prop, name, ctx.Shard, *lastFail, lastMsg)
					ctx.st.Violations = append(ctx.st.Violations, violation{Replay: p, Msg: trunc(lastMsg, 2000)})
				} else {
					// generator problem or panic outside run: report as infrastructure
					p := saveReplay(ctx.Prop, name, ctx.Shard, "no case captured", "rapid failed without a captured case")
					ctx.st.Violations = append(ctx.st.Violations, violation{Replay: p, Msg: "rapid failed without a captured case (harness error)"})
				}
			}
		},
		replay: func(raw json.RawMessage, rec *Rec) error {
			var c C
			if err := json.Unmarshal(raw, &c); err != nil {
				return err
			}
			runSafe(c, rec)
			return nil
		},
	}
}

// Enum builds an enumeration-style sub-check. replay may be nil when the
// enumeration saves cases that another sub can replay.
func Enum[C any](name string, gen func(ctx *Ctx), replay func(C, *Rec)) Sub {
	return Sub{
		Name: name,
		gen:  gen,
		replay: func(raw json.RawMessage, rec *Rec) error {
			var c C
			if err := json.Unmarshal(raw, &c); err != nil {
				return err
			}
			Safe(rec, "replay", func() { replay(c, rec) })
			return nil
		},
	}
}

// Main is the single test entry point of a property package.
func Main(t *testing.T, prop string, subs ...Sub) {
	// runaway recursion should fail in milliseconds, not after a gigabyte of stack
	debug.SetMaxStack(64 << 20)
	if rp := os.Getenv("VERIF_REPLAY"); rp != "" {
		doReplay(t, prop, rp, subs)
		return
	}
	all := map[string]*subStats{}
	defer func() { flush(prop, all) }()
	for _, s := range subs {
		if only != "" && !matchOnly(s.Name) {
			continue
		}
		st := newSubStats()
		all[s.Name] = st
		ctx := &Ctx{Prop: prop, Sub: s.Name, Tier: tier, Seed: seedEnv, Shard: shard, NShards: nshards, st: st}
		start := time.Now()
		t.Run(s.Name, func(tt *testing.T) {
			ctx.T = tt
			defer func() {
				if e := recover(); e != nil {
					// a panic that escaped a sub-check (enumerations call the library directly)
					ctx.Violation(map[string]any{"panic_in_sub_check": s.Name}, fmt.Sprintf("panic in %s: %v\n%s", s.Name, e, shortStack()))
				}
			}()
			s.gen(ctx)
		})
		st.WallS = time.Since(start).Seconds()
		flush(prop, all)
	}
}

func matchOnly(name string) bool {
	for _, p := range strings.Split(only, ",") {
		if p == name {
			return true
		}
	}
	return false
}

func doReplay(t *testing.T, prop, path string, subs []Sub) {
	b, err := os.ReadFile(path)
	if err != nil {
		fmt.Printf("REPLAY-ERROR cannot read %s: %v\n", path, err)
		t.Fatalf("cannot read replay: %v", err)
	}
	var rf replayFile
	if err := json.Unmarshal(b, &rf); err != nil {
		fmt.Printf("REPLAY-ERROR bad replay file %s: %v\n", path, err)
		t.Fatalf("bad replay: %v", err)
	}
	for _, s := range subs {
		if s.Name != rf.Sub {
			continue
		}
		if s.replay == nil {
			break
		}
		rec := &Rec{}
		if err := s.replay(rf.Case, rec); err != nil {
			fmt.Printf("REPLAY-ERROR cannot decode case: %v\n", err)
			t.Fatalf("bad case: %v", err)
		}
		if rec.viol != "" {
			fmt.Printf("REPLAY-VIOLATION %s\n", strings.ReplaceAll(trunc(rec.viol, 3000), "\n", "\n    "))
			t.Fail()
			return
		}
		if rec.skip != "" {
			fmt.Printf("REPLAY-PASS (case outside judged domain: %s)\n", rec.skip)
			return
		}
		fmt.Printf("REPLAY-PASS\n")
		return
	}
	fmt.Printf("REPLAY-ERROR no sub-check %q in %s\n", rf.Sub, prop)
	t.Fatalf("no sub %q", rf.Sub)
}

type shardOut struct {
	Property string               `json:"property"`
	Shard    int                  `json:"shard"`
	Subs     map[string]*subStats `json:"subs"`
}

func flush(prop string, all map[string]*subStats) {
	if outDir == "" {
		return
	}
	out := shardOut{Property: prop, Shard: shard, Subs: all}
	b, _ := json.Marshal(out)
	os.WriteFile(filepath.Join(outDir, fmt.Sprintf("shard_%d.json", shard)), b, 0o644)
	// fingerprints
	var buf []byte
	names := make([]string, 0, len(all))
	for n := range all {
		names = append(names, n)
	}
	sort.Strings(names)
	for _, n := range names {
		for fp := range all[n].fps {
			var w [8]byte
			binary.LittleEndian.PutUint64(w[:], fp^Hash(n))
			buf = append(buf, w[:]...)
		}
	}
	os.WriteFile(filepath.Join(outDir, fmt.Sprintf("fp_%d.bin", shard)), buf, 0o644)
}

// Hash is FNV-64a of s.
func Hash(s string) uint64 {
	f := fnv.New64a()
	f.Write([]byte(s))
	return f.Sum64()
}

// ---------------------------------------------------------------------------
// Watchdog

// Call runs f in a goroutine and waits up to d for it to return. It reports
// whether f returned; a panic in f is re-raised in the caller.
func Call(d time.Duration, f func()) (returned bool) {
	done := make(chan struct{})
	var pv any
	go func() {
		defer close(done)
		defer func() {
			if e := recover(); e != nil {
				// keep the stack of the goroutine that panicked: the caller re-panics elsewhere
				pv = fmt.Sprintf("%v\n%s", e, shortStack())
			}
		}()
		f()
	}()
	if !Await(done, d, "github.com/biogo/hts") {
		return false
	}
	if pv != nil {
		panic(pv)
	}
	return true
}

// Await waits for done. A time budget that runs out is not by itself a
// verdict: after d without completion the goroutine dump decides. If the
// library is stuck (Deadlocked) Await returns false at once. If library
// goroutines are still doing something (a slow, busy machine) it keeps
// waiting, re-examining every two seconds, and gives up only after ten times
// d (a loop that never ends).
func Await(done <-chan struct{}, d time.Duration, pkgFrag string) bool {
	tm := time.NewTimer(d)
	defer tm.Stop()
	select {
	case <-done:
		return true
	case <-tm.C:
	}
	deadline := time.Now().Add(9 * d)
	for {
		if dl, _ := Deadlocked(pkgFrag); dl {
			// look once more: a goroutine scheduled late may still move
			select {
			case <-done:
				return true
			case <-time.After(time.Second):
			}
			if dl2, _ := Deadlocked(pkgFrag); dl2 {
				return false
			}
		}
		if time.Now().After(deadline) {
			return false
		}
		select {
		case <-done:
			return true
		case <-time.After(2 * time.Second):
		}
	}
}

// Stacks returns a whole-program goroutine dump.
func Stacks() string {
	buf := make([]byte, 1<<20)
	n := runtime.Stack(buf, true)
	return string(buf[:n])
}

// Deadlocked inspects two goroutine dumps taken a moment apart and reports
// whether the library is stuck, as opposed to slow: in both dumps at least one
// goroutine whose innermost non-runtime frame lies in a package matching
// pkgFrag is parked on a channel/lock/waitgroup, and no goroutine that has a
// pkgFrag frame anywhere on its stack is doing anything else (running,
// compressing, inside a harness I/O shim, sleeping).
func Deadlocked(pkgFrag string) (bool, string) {
	a := Stacks()
	time.Sleep(300 * time.Millisecond)
	b := Stacks()
	w1, r1, where := stuckIn(a, pkgFrag)
	w2, r2, _ := stuckIn(b, pkgFrag)
	if w1 && w2 && !r1 && !r2 {
		return true, where
	}
	return false, where
}

func stuckIn(dump, pkgFrag string) (anyWaiting, anyRunning bool, where string) {
	for _, g := range strings.Split(dump, "\n\n") {
		if !strings.Contains(g, pkgFrag) {
			continue
		}
		lines := strings.Split(g, "\n")
		hdr := lines[0]
		top := ""
		for _, l := range lines[1:] {
			if strings.HasPrefix(l, "\t") || strings.HasPrefix(l, "created by") {
				continue
			}
			if strings.HasPrefix(l, "runtime.") || strings.HasPrefix(l, "sync.") || strings.HasPrefix(l, "internal/") || strings.HasPrefix(l, "time.") || strings.HasPrefix(l, "sync/atomic.") {
				continue
			}
			top = l
			break
		}
		waitState := false
		for _, st := range []string{"chan receive", "chan send", "select", "semacquire", "sync.Mutex", "sync.RWMutex", "sync.WaitGroup", "sync.Cond"} {
			if strings.Contains(hdr, st) {
				waitState = true
			}
		}
		if waitState && strings.Contains(top, pkgFrag) {
			anyWaiting = true
			if where == "" {
				where = trunc(g, 1500)
			}
		} else {
			anyRunning = true
		}
	}
	return
}

// MarkExhaustive records that this sub-check enumerated its finite space completely.
func (c *Ctx) MarkExhaustive() { c.st.Exhaustive = true }

// Hex is a byte slice that serialises as a hex string (readable replay files).
type Hex []byte

func (x Hex) MarshalJSON() ([]byte, error) { return json.Marshal(fmt.Sprintf("%x", []byte(x))) }
func (x *Hex) UnmarshalJSON(b []byte) error {
	var s string
	if err := json.Unmarshal(b, &s); err != nil {
		return err
	}
	out := make([]byte, len(s)/2)
	for i := range out {
		v, err := strconv.ParseUint(s[2*i:2*i+2], 16, 8)
		if err != nil {
			return err
		}
		out[i] = byte(v)
	}
	*x = out
	return nil
}

// KnownRegion reports whether known_findings.json lists an unrepaired
// finding of property prop whose excluded region is named region. Generators
// use it to stay out of the region (and count what they skip) so that the
// search continues behind the finding.
func KnownRegion(prop, region string) bool {
	regionsOnce.Do(func() {
		b, err := os.ReadFile(filepath.Join(Root, "known_findings.json"))
		if err != nil {
			return
		}
		var f struct {
			Findings []struct {
				Status, Property, Region string
			} `json:"findings"`
		}
		if json.Unmarshal(b, &f) != nil {
			return
		}
		for _, x := range f.Findings {
			if x.Status == "known" && x.Region != "" {
				regions[x.Property+"/"+x.Region] = true
			}
		}
	})
	return regions[prop+"/"+region]
}

var (
	regionsOnce sync.Once
	regions     = map[string]bool{}
)

// Replaying reports whether this process replays a saved case (known-finding
// regions are then not excluded, so a pinned finding shows itself).
func Replaying() bool { return os.Getenv("VERIF_REPLAY") != "" }
