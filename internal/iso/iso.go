// Package iso runs decoder calls in an isolated worker process: a panic is
// caught and reported, a call that does not return is reported and the worker
// replaced, and a worker that dies (fatal runtime error: stack overflow, out
// of memory under the address-space limit) is classified from its stderr and
// replaced. The parent never runs a decoder itself.
package iso

import (
	"bufio"
	"bytes"
	"encoding/binary"
	"fmt"
	"io"
	"os"
	"os/exec"
	"regexp"
	"runtime"
	"runtime/debug"
	"strconv"
	"strings"
	"sync"
	"syscall"
	"time"
)

// Status of one isolated call.
type Status int

const (
	OK       Status = iota // returned (value or error)
	Panic                  // recovered panic
	Hang                   // did not return within the (extended) budget
	Oversize               // the worker ran out of memory: the input asks for more than the limit; not judged
	Died                   // the worker died for another reason (stack overflow, fatal error)
)

// Target is a decoder entry point; it returns a short note (e.g. how far parsing got).
type Target struct {
	Name string
	Run  func(data []byte) string
}

// Serve is the worker loop: read requests from stdin, answer on stdout.
func Serve(targets []Target, memLimitMB int) {
	if memLimitMB > 0 {
		lim := uint64(memLimitMB) << 20
		syscall.Setrlimit(syscall.RLIMIT_AS, &syscall.Rlimit{Cur: lim, Max: lim})
	}
	debug.SetMaxStack(64 << 20)
	in := bufio.NewReader(os.Stdin)
	out := bufio.NewWriter(os.Stdout)
	for {
		var hdr [12]byte
		if _, err := io.ReadFull(in, hdr[:]); err != nil {
			return
		}
		ti := int(binary.LittleEndian.Uint32(hdr[0:]))
		n := int(binary.LittleEndian.Uint32(hdr[4:]))
		budgetMS := int(binary.LittleEndian.Uint32(hdr[8:]))
		data := make([]byte, n)
		if _, err := io.ReadFull(in, data); err != nil {
			return
		}
		status, msg := byte(OK), ""
		done := make(chan struct{})
		go func() {
			defer close(done)
			defer func() {
				if e := recover(); e != nil {
					status = byte(Panic)
					msg = fmt.Sprintf("%v\n%s", e, stack())
				}
			}()
			if ti < 0 || ti >= len(targets) {
				msg = "unknown target"
				return
			}
			msg = targets[ti].Run(data)
		}()
		<-done
		_ = budgetMS
		if len(msg) > 1<<15 {
			msg = msg[:1<<15]
		}
		var ms runtime.MemStats
		runtime.ReadMemStats(&ms)
		recycle := ms.Sys > 512<<20 // address space is never given back: start afresh so that later inputs get the whole limit
		if recycle && status == byte(OK) {
			status = byte(OK) | 0x80
		}
		var rh [5]byte
		rh[0] = status
		binary.LittleEndian.PutUint32(rh[1:], uint32(len(msg)))
		out.Write(rh[:])
		out.WriteString(msg)
		out.Flush()
		if status&0x80 != 0 {
			os.Exit(3) // recycle: the address space is never given back
		}
	}
}

func stack() string {
	st := string(debug.Stack())
	lines := strings.Split(st, "\n")
	var keep []string
	for _, l := range lines {
		if strings.Contains(l, "runtime/debug") || strings.Contains(l, "internal/iso") {
			continue
		}
		keep = append(keep, l)
		if len(keep) > 24 {
			break
		}
	}
	return strings.Join(keep, "\n")
}

// Pool owns one worker process.
type Pool struct {
	mu      sync.Mutex
	cmd     *exec.Cmd
	in      io.WriteCloser
	out     *bufio.Reader
	errBuf  *tailBuffer
	Spawned int
}

type tailBuffer struct {
	mu sync.Mutex
	b  []byte
}

func (t *tailBuffer) Write(p []byte) (int, error) {
	t.mu.Lock()
	defer t.mu.Unlock()
	t.b = append(t.b, p...)
	if len(t.b) > 1<<16 {
		// keep the head (the fatal error message comes first) and the tail
		t.b = append(t.b[:1<<15], t.b[len(t.b)-(1<<14):]...)
	}
	return len(p), nil
}
func (t *tailBuffer) String() string {
	t.mu.Lock()
	defer t.mu.Unlock()
	return string(t.b)
}

func (p *Pool) start() error {
	cmd := exec.Command(os.Args[0], "-test.run=^TestWorker$", "-test.timeout=0")
	// two processors: the garbage collector's parallel workers would otherwise
	// multiply the processor time of an allocation-heavy request by the core count
	cmd.Env = append(os.Environ(), "VERIF_WORKER=1", "VERIF_OUT=", "VERIF_REPLAY=", "GOMAXPROCS=2")
	in, err := cmd.StdinPipe()
	if err != nil {
		return err
	}
	out, err := cmd.StdoutPipe()
	if err != nil {
		return err
	}
	p.errBuf = &tailBuffer{}
	cmd.Stderr = p.errBuf
	if err := cmd.Start(); err != nil {
		return err
	}
	p.cmd, p.in, p.out = cmd, in, bufio.NewReader(out)
	p.Spawned++
	return nil
}

func (p *Pool) stop() {
	if p.cmd != nil {
		p.in.Close()
		p.cmd.Process.Kill()
		p.cmd.Wait()
		p.cmd = nil
	}
}

// Close shuts the worker down.
func (p *Pool) Close() {
	p.mu.Lock()
	defer p.mu.Unlock()
	p.stop()
}

// Run executes target ti on data in the worker. The call is bounded in
// processor time, not in wall-clock time (the machine may be busy): it is a
// hang when the worker has used cpuBudget of processor time, not counting the
// time during which its resident memory grew, without answering (a loop that
// does not end), when it has made no progress at all for stallLimit (blocked),
// or after wallLimit. budget is the time the
// caller waits before the worker is looked at more closely.
func (p *Pool) Run(ti int, data []byte, budget time.Duration) (Status, string) {
	p.mu.Lock()
	defer p.mu.Unlock()
	return p.once(ti, data, budget)
}

const (
	cpuBudget  = 60 * time.Second
	stallLimit = 20 * time.Second
	wallLimit  = 15 * time.Minute
)

func (p *Pool) once(ti int, data []byte, budget time.Duration) (Status, string) {
	if p.cmd == nil {
		if err := p.start(); err != nil {
			return Died, "cannot start worker: " + err.Error()
		}
	}
	cpu0 := cpuTime(p.cmd.Process.Pid)
	var hdr [12]byte
	binary.LittleEndian.PutUint32(hdr[0:], uint32(ti))
	binary.LittleEndian.PutUint32(hdr[4:], uint32(len(data)))
	binary.LittleEndian.PutUint32(hdr[8:], uint32(budget/time.Millisecond))
	type resp struct {
		st  Status
		msg string
		err error
	}
	ch := make(chan resp, 1)
	go func() {
		if _, err := p.in.Write(append(hdr[:], data...)); err != nil {
			ch <- resp{err: err}
			return
		}
		var rh [5]byte
		if _, err := io.ReadFull(p.out, rh[:]); err != nil {
			ch <- resp{err: err}
			return
		}
		n := binary.LittleEndian.Uint32(rh[1:])
		m := make([]byte, n)
		if _, err := io.ReadFull(p.out, m); err != nil {
			ch <- resp{err: err}
			return
		}
		ch <- resp{st: Status(rh[0]), msg: string(m)}
	}()
	select {
	case r := <-ch:
		if r.err != nil {
			// the worker died
			p.cmd.Wait()
			stderr := p.errBuf.String()
			p.cmd = nil
			if isSingleOversizeAlloc(stderr) {
				return Oversize, firstLines(stderr, 6)
			}
			return Died, firstLines(stderr, 40)
		}
		if r.st&0x80 != 0 {
			p.cmd.Wait()
			p.cmd = nil
			r.st &^= 0x80
		}
		return r.st, r.msg
	case <-time.After(budget):
		// No answer yet: watch the worker. Processor time is charged only while
		// its resident memory is not growing: touching fresh memory is slow here
		// (seconds per GiB, more on a busy machine), and a request that allocates
		// what a length field of the input asks for is not a loop. One that keeps
		// growing runs into the address-space limit and is judged by its stack.
		pid := p.cmd.Process.Pid
		startWall := time.Now()
		lastCPU, lastRSS := cpuTime(pid), residentSize(pid)
		lastProgress := time.Now()
		var charged time.Duration
		why := ""
		for why == "" {
			select {
			case r := <-ch:
				if r.err != nil {
					p.cmd.Wait()
					stderr := p.errBuf.String()
					p.cmd = nil
					if isSingleOversizeAlloc(stderr) {
						return Oversize, firstLines(stderr, 6)
					}
					return Died, firstLines(stderr, 40)
				}
				if r.st&0x80 != 0 {
					p.cmd.Wait()
					p.cmd = nil
					r.st &^= 0x80
				}
				return r.st, r.msg
			case <-time.After(time.Second):
			}
			nowCPU, nowRSS := cpuTime(pid), residentSize(pid)
			growing := nowRSS > lastRSS+256<<10
			if growing || nowCPU-lastCPU > 50*time.Millisecond {
				lastProgress = time.Now()
			}
			if !growing {
				charged += nowCPU - lastCPU
			}
			lastCPU = nowCPU
			if growing || nowRSS < lastRSS {
				lastRSS = nowRSS
			}
			switch {
			case charged > cpuBudget:
				why = fmt.Sprintf("no answer after %v of processor time spent without touching new memory (%v elapsed, %v of processor time in all, %d MiB resident)", charged.Round(time.Second), (budget + time.Since(startWall)).Round(time.Second), (nowCPU - cpu0).Round(time.Second), nowRSS>>20)
			case time.Since(lastProgress) > stallLimit:
				why = fmt.Sprintf("no answer, and neither processor time used nor memory touched for %v: blocked (%v elapsed, %v of processor time)", stallLimit, (budget + time.Since(startWall)).Round(time.Second), (nowCPU - cpu0).Round(time.Millisecond))
			case time.Since(startWall) > wallLimit:
				why = fmt.Sprintf("no answer after %v", wallLimit)
			}
		}
		p.cmd.Process.Signal(syscall.SIGQUIT) // ask the runtime for a goroutine dump
		time.Sleep(300 * time.Millisecond)
		p.stop()
		return Hang, why + "\n" + libraryGoroutines(p.errBuf.String(), 60)
	}
}

// residentSize returns the resident set size of a process in bytes (0 if unknown).
func residentSize(pid int) uint64 {
	b, err := os.ReadFile(fmt.Sprintf("/proc/%d/statm", pid))
	if err != nil {
		return 0
	}
	f := strings.Fields(string(b))
	if len(f) < 2 {
		return 0
	}
	n, _ := strconv.ParseUint(f[1], 10, 64)
	return n * uint64(os.Getpagesize())
}

// cpuTime returns the processor time (user+system, all threads) a process has used.
func cpuTime(pid int) time.Duration {
	b, err := os.ReadFile(fmt.Sprintf("/proc/%d/stat", pid))
	if err != nil {
		return 0
	}
	// the command name (field 2) may contain spaces: cut after the closing parenthesis
	s := string(b)
	if i := strings.LastIndexByte(s, ')'); i >= 0 {
		s = s[i+1:]
	}
	f := strings.Fields(s)
	if len(f) < 13 {
		return 0
	}
	ut, _ := strconv.ParseUint(f[11], 10, 64) // utime: field 14 of the whole line
	st, _ := strconv.ParseUint(f[12], 10, 64) // stime: field 15
	return time.Duration(ut+st) * (time.Second / 100)
}

// libraryGoroutines keeps the goroutines of a runtime dump that have a frame
// of the library under test (the others are the worker loop and the runtime).
func libraryGoroutines(dump string, maxLines int) string {
	var keep []string
	for _, g := range strings.Split(dump, "\n\n") {
		if strings.Contains(g, "github.com/biogo/hts") {
			keep = append(keep, g)
		}
	}
	if len(keep) == 0 {
		return firstLines(dump, maxLines)
	}
	return firstLines(strings.Join(keep, "\n\n"), maxLines)
}

var oomRe = regexp.MustCompile(`cannot allocate (\d+)-byte block \((\d+) in use\)`)

// isSingleOversizeAlloc reports whether the worker died because ONE allocation
// (sized by a length field of the input) exceeded the limit while little else
// was in use. A heap that grew to the limit step by step (unbounded loop) is
// not an oversize request but a defect.
func isSingleOversizeAlloc(stderr string) bool {
	m := oomRe.FindStringSubmatch(stderr)
	if m == nil {
		return false
	}
	block, _ := strconv.ParseUint(m[1], 10, 64)
	if block < 32<<20 {
		return false
	}
	// the allocating goroutine: make(...) with a length taken from the input,
	// as opposed to a slice or buffer that kept growing
	i := strings.Index(stderr, "[running]:")
	if i < 0 {
		return false
	}
	st := stderr[i:]
	if j := strings.Index(st, "\n\n"); j > 0 {
		st = st[:j]
	}
	if strings.Contains(st, "runtime.growslice") || strings.Contains(st, "bytes.(*Buffer).grow") || strings.Contains(st, "bytes.growSlice") {
		return false
	}
	return strings.Contains(st, "runtime.makeslice")
}

func firstLines(s string, n int) string {
	lines := strings.Split(s, "\n")
	if len(lines) > n {
		lines = lines[:n]
	}
	return strings.Join(lines, "\n")
}

func stackAll(buf []byte) int {
	return runtimeStack(buf)
}

var _ = bytes.MinRead
