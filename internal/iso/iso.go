// Package iso runs decoder calls in an isolated worker process: a panic is
// caught and reported, a call that does not return is reported and the worker
// replaced, and a worker that dies (fatal runtime error: stack overflow, out
// of memory under the address-space limit) is classified from its stderr and
// replaced. The parent never runs a decoder itself.
package iso

import (
	"bufio"
	"bytes"
	"encoding/binary"
	"fmt"
	"io"
	"os"
	"os/exec"
	"regexp"
	"runtime"
	"runtime/debug"
	"strconv"
	"strings"
	"sync"
	"syscall"
	"time"
)

// Status of one isolated call.
type Status int

const (
	OK       Status = iota // returned (value or error)
	Panic                  // recovered panic
	Hang                   // did not return within the (extended) budget
	Oversize               // the worker ran out of memory: the input asks for more than the limit; not judged
	Died                   // the worker died for another reason (stack overflow, fatal error)
)

// Target is a decoder entry point; it returns a short note (e.g. how far parsing got).
type Target struct {
	Name string
	Run  func(data []byte) string
}

// Serve is the worker loop: read requests from stdin, answer on stdout.
func Serve(targets []Target, memLimitMB int) {
	if memLimitMB > 0 {
		lim := uint64(memLimitMB) << 20
		syscall.Setrlimit(syscall.RLIMIT_AS, &syscall.Rlimit{Cur: lim, Max: lim})
	}
	debug.SetMaxStack(64 << 20)
	in := bufio.NewReader(os.Stdin)
	out := bufio.NewWriter(os.Stdout)
	for {
		var hdr [12]byte
		if _, err := io.ReadFull(in, hdr[:]); err != nil {
			return
		}
		ti := int(binary.LittleEndian.Uint32(hdr[0:]))
		n := int(binary.LittleEndian.Uint32(hdr[4:]))
		budgetMS := int(binary.LittleEndian.Uint32(hdr[8:]))
		data := make([]byte, n)
		if _, err := io.ReadFull(in, data); err != nil {
			return
		}
		status, msg := byte(OK), ""
		done := make(chan struct{})
		go func() {
			defer close(done)
			defer func() {
				if e := recover(); e != nil {
					status = byte(Panic)
					msg = fmt.Sprintf("%v\n%s", e, stack())
				}
			}()
			if ti < 0 || ti >= len(targets) {
				msg = "unknown target"
				return
			}
			msg = targets[ti].Run(data)
		}()
		<-done
		_ = budgetMS
		if len(msg) > 1<<15 {
			msg = msg[:1<<15]
		}
		var ms runtime.MemStats
		runtime.ReadMemStats(&ms)
		recycle := ms.Sys > 512<<20 // address space is never given back: start afresh so that later inputs get the whole limit
		if recycle && status == byte(OK) {
			status = byte(OK) | 0x80
		}
		var rh [5]byte
		rh[0] = status
		binary.LittleEndian.PutUint32(rh[1:], uint32(len(msg)))
		out.Write(rh[:])
		out.WriteString(msg)
		out.Flush()
		if status&0x80 != 0 {
			os.Exit(3) // recycle: the address space is never given back
		}
	}
}

func stack() string {
	st := string(debug.Stack())
	lines := strings.Split(st, "\n")
	var keep []string
	for _, l := range lines {
		if strings.Contains(l, "runtime/debug") || strings.Contains(l, "internal/iso") {
			continue
		}
		keep = append(keep, l)
		if len(keep) > 24 {
			break
		}
	}
	return strings.Join(keep, "\n")
}

// Pool owns one worker process.
type Pool struct {
	mu      sync.Mutex
	cmd     *exec.Cmd
	in      io.WriteCloser
	out     *bufio.Reader
	errBuf  *tailBuffer
	Spawned int
}

type tailBuffer struct {
	mu sync.Mutex
	b  []byte
}

func (t *tailBuffer) Write(p []byte) (int, error) {
	t.mu.Lock()
	defer t.mu.Unlock()
	t.b = append(t.b, p...)
	if len(t.b) > 1<<16 {
		// keep the head (the fatal error message comes first) and the tail
		t.b = append(t.b[:1<<15], t.b[len(t.b)-(1<<14):]...)
	}
	return len(p), nil
}
func (t *tailBuffer) String() string {
	t.mu.Lock()
	defer t.mu.Unlock()
	return string(t.b)
}

func (p *Pool) start() error {
	cmd := exec.Command(os.Args[0], "-test.run=^TestWorker$", "-test.timeout=0")
	cmd.Env = append(os.Environ(), "VERIF_WORKER=1", "VERIF_OUT=", "VERIF_REPLAY=")
	in, err := cmd.StdinPipe()
	if err != nil {
		return err
	}
	out, err := cmd.StdoutPipe()
	if err != nil {
		return err
	}
	p.errBuf = &tailBuffer{}
	cmd.Stderr = p.errBuf
	if err := cmd.Start(); err != nil {
		return err
	}
	p.cmd, p.in, p.out = cmd, in, bufio.NewReader(out)
	p.Spawned++
	return nil
}

func (p *Pool) stop() {
	if p.cmd != nil {
		p.in.Close()
		p.cmd.Process.Kill()
		p.cmd.Wait()
		p.cmd = nil
	}
}

// Close shuts the worker down.
func (p *Pool) Close() {
	p.mu.Lock()
	defer p.mu.Unlock()
	p.stop()
}

// Run executes target ti on data in the worker. budget bounds the call; a
// call that exceeds it is repeated once in a fresh worker with ten times the
// budget before it is called a hang.
func (p *Pool) Run(ti int, data []byte, budget time.Duration) (Status, string) {
	p.mu.Lock()
	defer p.mu.Unlock()
	st, msg := p.once(ti, data, budget)
	if st == Hang {
		st, msg = p.once(ti, data, 10*budget)
	}
	return st, msg
}

func (p *Pool) once(ti int, data []byte, budget time.Duration) (Status, string) {
	if p.cmd == nil {
		if err := p.start(); err != nil {
			return Died, "cannot start worker: " + err.Error()
		}
	}
	var hdr [12]byte
	binary.LittleEndian.PutUint32(hdr[0:], uint32(ti))
	binary.LittleEndian.PutUint32(hdr[4:], uint32(len(data)))
	binary.LittleEndian.PutUint32(hdr[8:], uint32(budget/time.Millisecond))
	type resp struct {
		st  Status
		msg string
		err error
	}
	ch := make(chan resp, 1)
	go func() {
		if _, err := p.in.Write(append(hdr[:], data...)); err != nil {
			ch <- resp{err: err}
			return
		}
		var rh [5]byte
		if _, err := io.ReadFull(p.out, rh[:]); err != nil {
			ch <- resp{err: err}
			return
		}
		n := binary.LittleEndian.Uint32(rh[1:])
		m := make([]byte, n)
		if _, err := io.ReadFull(p.out, m); err != nil {
			ch <- resp{err: err}
			return
		}
		ch <- resp{st: Status(rh[0]), msg: string(m)}
	}()
	select {
	case r := <-ch:
		if r.err != nil {
			// the worker died
			p.cmd.Wait()
			stderr := p.errBuf.String()
			p.cmd = nil
			if isSingleOversizeAlloc(stderr) {
				return Oversize, firstLines(stderr, 6)
			}
			return Died, firstLines(stderr, 40)
		}
		if r.st&0x80 != 0 {
			p.cmd.Wait()
			p.cmd = nil
			r.st &^= 0x80
		}
		return r.st, r.msg
	case <-time.After(budget):
		// No answer within the budget. One huge allocation sized by a length
		// field that is still being zeroed or walked is a memory question, not a
		// hang: the address space is large and no longer grows. A process whose
		// address space keeps growing is in an unbounded loop.
		v1 := vmSize(p.cmd.Process.Pid)
		select {
		case r := <-ch:
			if r.err == nil {
				if r.st&0x80 != 0 {
					p.cmd.Wait()
					p.cmd = nil
					r.st &^= 0x80
				}
				return r.st, r.msg
			}
		case <-time.After(1500 * time.Millisecond):
		}
		v2 := vmSize(p.cmd.Process.Pid)
		st, msg := Hang, fmt.Sprintf("no answer after %v (address space %d MiB, %d MiB 1.5 s later)", budget, v1>>20, v2>>20)
		if v1 > 1<<30 && v2 == v1 {
			st = Oversize
		}
		p.cmd.Process.Signal(syscall.SIGQUIT) // ask the runtime for a goroutine dump
		time.Sleep(300 * time.Millisecond)
		p.stop()
		return st, msg + "\n" + firstLines(p.errBuf.String(), 60)
	}
}

// vmSize returns the virtual memory size of a process in bytes (0 if unknown).
func vmSize(pid int) uint64 {
	b, err := os.ReadFile(fmt.Sprintf("/proc/%d/statm", pid))
	if err != nil {
		return 0
	}
	f := strings.Fields(string(b))
	if len(f) == 0 {
		return 0
	}
	n, _ := strconv.ParseUint(f[0], 10, 64)
	return n * uint64(os.Getpagesize())
}

var oomRe = regexp.MustCompile(`cannot allocate (\d+)-byte block \((\d+) in use\)`)

// isSingleOversizeAlloc reports whether the worker died because ONE allocation
// (sized by a length field of the input) exceeded the limit while little else
// was in use. A heap that grew to the limit step by step (unbounded loop) is
// not an oversize request but a defect.
func isSingleOversizeAlloc(stderr string) bool {
	m := oomRe.FindStringSubmatch(stderr)
	if m == nil {
		return false
	}
	block, _ := strconv.ParseUint(m[1], 10, 64)
	if block < 32<<20 {
		return false
	}
	// the allocating goroutine: make(...) with a length taken from the input,
	// as opposed to a slice or buffer that kept growing
	i := strings.Index(stderr, "[running]:")
	if i < 0 {
		return false
	}
	st := stderr[i:]
	if j := strings.Index(st, "\n\n"); j > 0 {
		st = st[:j]
	}
	if strings.Contains(st, "runtime.growslice") || strings.Contains(st, "bytes.(*Buffer).grow") || strings.Contains(st, "bytes.growSlice") {
		return false
	}
	return strings.Contains(st, "runtime.makeslice")
}

func firstLines(s string, n int) string {
	lines := strings.Split(s, "\n")
	if len(lines) > n {
		lines = lines[:n]
	}
	return strings.Join(lines, "\n")
}

func stackAll(buf []byte) int {
	return runtimeStack(buf)
}

var _ = bytes.MinRead
