package iso

import "runtime"

func runtimeStack(buf []byte) int { return runtime.Stack(buf, true) }
